import GoJson.Lemmas.JsonString
import GoJson.Lemmas.Rune
namespace GoJson.Model.Str
open GoJson GoJson.Spec

/-- what the escaper may emit: RFC-8259-well-formed items, no surrogate escapes, and with HTML
escaping on no raw `<`, `>`, `&` -/
def GoodItem (html : Bool) (i : Item) : Prop :=
  i.wf true = true ∧ i.notHigh = true ∧
    (∀ b, i = .raw b → (html = true → b ≠ 60 ∧ b ≠ 62 ∧ b ≠ 38))

theorem step (html : Bool) (pre : List Item) (out' s s' : List UInt8)
    (hpre : ∀ i ∈ pre, GoodItem html i)
    (hco : coerceUtf8 s = sem pre ++ coerceUtf8 s')
    (ih : ∃ items, renderAll items = out' ∧ (∀ i ∈ items, GoodItem html i) ∧ sem items = coerceUtf8 s') :
    ∃ items, renderAll items = renderAll pre ++ out' ∧ (∀ i ∈ items, GoodItem html i) ∧
      sem items = coerceUtf8 s := by
  obtain ⟨items, hr, hg, hs⟩ := ih
  refine ⟨pre ++ items, by rw [renderAll_append, hr], ?_, ?_⟩
  · intro i hi
    rcases List.mem_append.mp hi with h | h
    · exact hpre i h
    · exact hg i h
  · rw [sem_append pre items (fun i hi => (hpre i hi).2.1), hs, hco]

theorem hexValue_hexDigit (n : Nat) (h : n < 16) : hexValue (hexDigit n) = n := by
  unfold hexDigit hexValue
  by_cases h10 : n < 10
  · have : ((48 + n).toUInt8).toNat = 48 + n := by simp [Nat.toUInt8, UInt8.toNat_ofNat']; omega
    simp only [h10, ↓reduceIte, this]
    have a : 48 ≤ 48 + n ∧ 48 + n ≤ 57 := by omega
    simp [a]
  · have : ((87 + n).toUInt8).toNat = 87 + n := by simp [Nat.toUInt8, UInt8.toNat_ofNat']; omega
    simp only [h10, ↓reduceIte, this]
    have a : ¬ (48 ≤ 87 + n ∧ 87 + n ≤ 57) := by omega
    have b : 97 ≤ 87 + n ∧ 87 + n ≤ 102 := by omega
    simp [a, b]

theorem isHexDigit_hexDigit (n : Nat) (h : n < 16) : isHexDigit (hexDigit n) = true := by
  unfold hexDigit isHexDigit
  by_cases h10 : n < 10
  · have : ((48 + n).toUInt8).toNat = 48 + n := by simp [Nat.toUInt8, UInt8.toNat_ofNat']; omega
    simp only [h10, ↓reduceIte, this]
    have a : 48 ≤ 48 + n ∧ 48 + n ≤ 57 := by omega
    simp [a]
  · have : ((87 + n).toUInt8).toNat = 87 + n := by simp [Nat.toUInt8, UInt8.toNat_ofNat']; omega
    simp only [h10, ↓reduceIte, this]
    have b : 97 ≤ 87 + n ∧ 87 + n ≤ 102 := by omega
    simp [b]

/-- the `\u00XX` escape of an ASCII byte denotes that byte -/
theorem u00_item (html : Bool) (c : UInt8) (hc : c.toNat < 0x80) :
    ∃ pre, renderAll pre = u00 c ∧ (∀ i ∈ pre, GoodItem html i) ∧ sem pre = [c] := by
  refine ⟨[.uni 48 48 (hexDigit (c.toNat / 16)) (hexDigit (c.toNat % 16))], by simp [renderAll, Item.render, u00], ?_, ?_⟩
  · intro i hi
    simp at hi; subst hi
    have h1 := isHexDigit_hexDigit (c.toNat / 16) (by omega)
    have h2 := isHexDigit_hexDigit (c.toNat % 16) (by omega)
    have hcode : code 48 48 (hexDigit (c.toNat / 16)) (hexDigit (c.toNat % 16)) = c.toNat := by
      unfold code
      rw [hexValue_hexDigit _ (by omega), hexValue_hexDigit _ (by omega)]
      simp [hexValue]; omega
    have h48 : isHexDigit 48 = true := by decide
    refine ⟨by simp only [Item.wf, h1, h2, h48, Bool.and_self], ?_, by intro b hb; cases hb⟩
    simp [Item.notHigh, hcode, isHighSur]; omega
  · have hcode : code 48 48 (hexDigit (c.toNat / 16)) (hexDigit (c.toNat % 16)) = c.toNat := by
      unfold code
      rw [hexValue_hexDigit _ (by omega), hexValue_hexDigit _ (by omega)]
      simp [hexValue]; omega
    rw [sem_cons_uni_notHigh _ _ _ _ _ (by simp [hcode, isHighSur]; omega), hcode, sem_nil]
    simp [utf8Encode, hc]


theorem simple_item (html : Bool) (e v : UInt8) (he : isSimpleLetter e = true) (hv : simpleValue e = v) :
    ∃ pre, renderAll pre = [92, e] ∧ (∀ i ∈ pre, GoodItem html i) ∧ sem pre = [v] := by
  refine ⟨[.simple e], by simp [renderAll, Item.render], ?_, by rw [sem_cons_simple, sem_nil, hv]⟩
  intro i hi
  simp at hi; subst hi
  exact ⟨by simp [Item.wf, he], by simp [Item.notHigh], by intro b hb; cases hb⟩

/-- every escape the `switch c` emits is a well-formed item denoting exactly the byte `c` -/
theorem escByte_item (html : Bool) (c : UInt8) (e : List UInt8) (h : escByte html c = some e) :
    c.toNat < 0x80 ∧ ∃ pre, renderAll pre = e ∧ (∀ i ∈ pre, GoodItem html i) ∧ sem pre = [c] := by
  unfold escByte at h
  split at h
  · rename_i hc
    simp at h; subst h
    simp at hc
    rcases hc with rfl | rfl
    · exact ⟨by decide, simple_item html 92 92 (by decide) (by decide)⟩
    · exact ⟨by decide, simple_item html 34 34 (by decide) (by decide)⟩
  · split at h
    · rename_i hc; simp at hc; subst hc; simp at h; subst h
      exact ⟨by decide, simple_item html 110 10 (by decide) (by decide)⟩
    · split at h
      · rename_i hc; simp at hc; subst hc; simp at h; subst h
        exact ⟨by decide, simple_item html 114 13 (by decide) (by decide)⟩
      · split at h
        · rename_i hc; simp at hc; subst hc; simp at h; subst h
          exact ⟨by decide, simple_item html 116 9 (by decide) (by decide)⟩
        · split at h
          · rename_i hc
            simp at h; subst h
            have : c.toNat < 0x80 := by
              simp at hc
              rcases hc.2 with (rfl | rfl) | rfl <;> decide
            exact ⟨this, u00_item html c this⟩
          · split at h
            · rename_i hc
              simp at h; subst h
              have : c.toNat < 0x80 := by omega
              exact ⟨this, u00_item html c this⟩
            · simp at h

/-- with normalisation on, a byte the table flags and the switch does not handle is ≥ 0x80 -/
theorem escByte_none_high (html : Bool) (c : UInt8) (ht : tbl html true c = true)
    (he : (escByte html c).isSome = false) : 0x80 ≤ c.toNat := by
  rw [tbl_spec] at ht
  unfold needsEscSpec at ht
  unfold escByte at he
  by_cases h80 : 0x80 ≤ c.toNat
  · exact h80
  · exfalso
    simp only [Bool.or_eq_true, decide_eq_true_eq, beq_iff_eq, Bool.and_eq_true, Bool.true_and] at ht
    have e1 := u8eq_iff c 92
    have e2 := u8eq_iff c 34
    have e3 := u8eq_iff c 10
    have e4 := u8eq_iff c 13
    have e5 := u8eq_iff c 9
    have e6 := u8eq_iff c 60
    have e7 := u8eq_iff c 62
    have e8 := u8eq_iff c 38
    simp only [UInt8.toNat_ofNat, UInt8.reduceToNat] at e1 e2 e3 e4 e5 e6 e7 e8
    (repeat' split at he) <;> simp_all
    cases html <;> simp_all <;> omega


theorem plain_byte (html : Bool) (c : UInt8) (h : tbl html true c = false) :
    c.toNat < 0x80 ∧ GoodItem html (.raw c) := by
  rw [tbl_spec] at h
  unfold needsEscSpec at h
  simp only [Bool.or_eq_false_iff, decide_eq_false_iff_not, beq_eq_false_iff_ne, Bool.and_eq_false_iff,
    Bool.true_and, Nat.not_lt, Nat.not_le, ne_eq] at h
  obtain ⟨⟨⟨⟨h1, h2⟩, h3⟩, h4⟩, h5⟩ := h
  have e1 := u8eq_iff c 34
  have e2 := u8eq_iff c 92
  have e3 := u8eq_iff c 0
  have e6 := u8eq_iff c 60
  have e7 := u8eq_iff c 62
  have e8 := u8eq_iff c 38
  simp only [UInt8.toNat_ofNat] at e1 e2 e3 e6 e7 e8
  refine ⟨by omega, ?_, by simp [Item.notHigh], ?_⟩
  · simp only [Item.wf, Bool.not_true, Bool.false_or, Bool.and_eq_true, bne_iff_ne, ne_eq,
      decide_eq_true_eq, e1, e2, e3]
    omega
  · intro b hb hh
    cases hb
    subst hh
    have h4' : (¬c.toNat = 60 ∧ ¬c.toNat = 62) ∧ ¬c.toNat = 38 := by
      rcases h4 with h | h
      · cases h
      · exact h
    refine ⟨fun h => ?_, fun h => ?_, fun h => ?_⟩ <;>
      (have := congrArg UInt8.toNat h; simp at this; omega)

theorem utf8Encode_fffd : utf8Encode 0xFFFD = runeError := by decide
theorem utf8Encode_2028 : utf8Encode 0x2028 = [0xE2, 0x80, 0xA8] := by decide
theorem utf8Encode_2029 : utf8Encode 0x2029 = [0xE2, 0x80, 0xA9] := by decide

theorem sep_len (c : UInt8) (t : List UInt8) (x : UInt8) (hx : x = 0xA8 ∨ x = 0xA9)
    (h : (c :: t).take 3 = [0xE2, 0x80, x]) : utf8SeqLen (c :: t) = 3 ∧ c :: t.take 2 = [0xE2, 0x80, x] := by
  rcases t with _ | ⟨s1, _ | ⟨s2, t3⟩⟩ <;> simp at h
  obtain ⟨rfl, rfl, rfl⟩ := h
  rcases hx with rfl | rfl <;> simp [utf8SeqLen, isCont]

theorem uni_good (html : Bool) (h1 h2 h3 h4 : UInt8) (hw : (Item.uni h1 h2 h3 h4).wf true = true)
    (hn : isHighSur (code h1 h2 h3 h4) = false) : GoodItem html (.uni h1 h2 h3 h4) :=
  ⟨hw, by simp [Item.notHigh, hn], by intro b hb; cases hb⟩

/-- **Escaping with UTF-8 normalisation is faithful.** For every byte string `s` (and either HTML
setting) the body emitted by the byte-at-a-time escaper is the rendering of RFC-8259-well-formed
items — so it contains no raw control character, quote or backslash, and with HTML escaping no
raw `<`, `>`, `&` — and the items denote exactly `s` with every ill-formed byte replaced by
U+FFFD. -/
theorem slow_sound_norm (html : Bool) (s : List UInt8) :
    ∃ items, renderAll items = slow html true s ∧ (∀ i ∈ items, GoodItem html i) ∧
      sem items = coerceUtf8 s := by
  fun_induction slow html true s
  case case1 => exact ⟨[], by simp [renderAll], by simp, by rw [sem_nil, coerce_nil]⟩
  case case2 c t h ih =>
    have hp := plain_byte html c (by simpa using h)
    have := step html [.raw c] _ (c :: t) t (by intro i hi; simp at hi; subst hi; exact hp.2)
      (by rw [coerce_cons_ascii c t hp.1, sem_cons_raw, sem_nil]; rfl) ih
    simpa [renderAll, Item.render] using this
  case case3 c t h1 h2 ih =>
    obtain ⟨e, he⟩ := Option.isSome_iff_exists.mp h2
    obtain ⟨hc, pre, hr, hg, hs⟩ := escByte_item html c e he
    have := step html pre _ (c :: t) t hg (by rw [coerce_cons_ascii c t hc, hs]; rfl) ih
    rw [hr] at this
    simpa [he] using this
  case case4 c t h1 h2 h3 ih => simp at h3
  case case5 c t h1 h2 h3 h4 ih =>
    rw [decodeRune_spec] at h4
    have hlen : utf8SeqLen (c :: t) = 0 := by
      unfold runeSpec at h4
      by_cases h0 : utf8SeqLen (c :: t) = 0
      · exact h0
      · simp only [h0, ↓reduceIte] at h4
        (repeat' split at h4) <;> simp at h4
    have := step html [.uni 102 102 102 100] _ (c :: t) t
      (by intro i hi; simp at hi; subst hi; exact uni_good html _ _ _ _ (by decide) (by decide))
      (by rw [sem_cons_uni_notHigh _ _ _ _ _ (by decide), sem_nil, coerceUtf8]
          simp only [hlen, ↓reduceIte]
          have : code 102 102 102 100 = 0xFFFD := by decide
          rw [this, utf8Encode_fffd]; simp) ih
    simpa [renderAll, Item.render] using this
  case case6 c t h1 h2 h3 h4 h5 ih =>
    rw [decodeRune_spec] at h5
    have htake : (c :: t).take 3 = [0xE2, 0x80, 0xA8] := by
      unfold runeSpec at h5
      (repeat' split at h5) <;> simp at h5
      assumption
    obtain ⟨hlen, hpre⟩ := sep_len c t 0xA8 (Or.inl rfl) htake
    have := step html [.uni 50 48 50 56] _ (c :: t) (t.drop 2)
      (by intro i hi; simp at hi; subst hi; exact uni_good html _ _ _ _ (by decide) (by decide))
      (by rw [sem_cons_uni_notHigh _ _ _ _ _ (by decide), sem_nil, coerceUtf8]
          simp only [hlen]
          have : code 50 48 50 56 = 0x2028 := by decide
          rw [this, utf8Encode_2028]
          rw [if_neg (by decide)]
          simp only [Nat.reduceSub, List.append_nil]
          rw [show ∀ X : List UInt8, c :: List.take 2 t ++ X = (c :: List.take 2 t) ++ X from fun _ => rfl, hpre]) ih
    simpa [renderAll, Item.render] using this
  case case7 c t h1 h2 h3 h4 h5 h6 ih =>
    rw [decodeRune_spec] at h6
    have htake : (c :: t).take 3 = [0xE2, 0x80, 0xA9] := by
      unfold runeSpec at h6
      (repeat' split at h6) <;> simp at h6
      assumption
    obtain ⟨hlen, hpre⟩ := sep_len c t 0xA9 (Or.inr rfl) htake
    have := step html [.uni 50 48 50 57] _ (c :: t) (t.drop 2)
      (by intro i hi; simp at hi; subst hi; exact uni_good html _ _ _ _ (by decide) (by decide))
      (by rw [sem_cons_uni_notHigh _ _ _ _ _ (by decide), sem_nil, coerceUtf8]
          simp only [hlen]
          have : code 50 48 50 57 = 0x2029 := by decide
          rw [this, utf8Encode_2029]
          rw [if_neg (by decide)]
          simp only [Nat.reduceSub, List.append_nil]
          rw [show ∀ X : List UInt8, c :: List.take 2 t ++ X = (c :: List.take 2 t) ++ X from fun _ => rfl, hpre]) ih
    simpa [renderAll, Item.render] using this
  case case8 c t h1 h2 h3 h4 h5 h6 ih =>
    rw [decodeRune_spec] at h4 h5 h6 ih ⊢
    have hc80 := escByte_none_high html c (by simpa using h1) (by simpa using h2)
    have hlen : utf8SeqLen (c :: t) ≠ 0 := by
      intro h0
      simp [runeSpec, h0] at h4
    have hsz : (runeSpec (c :: t)).2 = utf8SeqLen (c :: t) := by
      unfold runeSpec at h5 h6 ⊢
      simp only [hlen, ↓reduceIte] at h5 h6 ⊢
      (repeat' split) <;> simp_all
    rw [hsz] at ih ⊢
    generalize hn : utf8SeqLen (c :: t) = n at *
    have hhigh : ∀ b ∈ t.take (n - 1), 0x80 ≤ b.toNat := by
      intro b hb; rw [← hn] at hb; exact seq_tail_high c t b hb
    have hgood : ∀ b : UInt8, 0x80 ≤ b.toNat → GoodItem html (.raw b) := by
      intro b hb
      have e1 := u8eq_iff b 34
      have e2 := u8eq_iff b 92
      have e3 := u8eq_iff b 0
      have e6 := u8eq_iff b 60
      have e7 := u8eq_iff b 62
      have e8 := u8eq_iff b 38
      simp only [UInt8.toNat_ofNat] at e1 e2 e3 e6 e7 e8
      refine ⟨?_, by simp [Item.notHigh], ?_⟩
      · simp only [Item.wf, Bool.not_true, Bool.false_or, Bool.and_eq_true, bne_iff_ne, ne_eq,
          decide_eq_true_eq, e1, e2, e3]
        omega
      · intro b' hb' _
        cases hb'
        refine ⟨fun h => ?_, fun h => ?_, fun h => ?_⟩ <;>
          (have := congrArg UInt8.toNat h; simp at this; omega)
    have hsem : ∀ l : List UInt8, sem (l.map Item.raw) = l := by
      intro l; induction l with
      | nil => exact sem_nil
      | cons x xs ihx => rw [List.map_cons, sem_cons_raw, ihx]
    have hren : ∀ l : List UInt8, renderAll (l.map Item.raw) = l := by
      intro l; induction l with
      | nil => rfl
      | cons x xs ihx => rw [List.map_cons, renderAll_cons, ihx]; simp [Item.render]
    have := step html ((c :: t.take (n - 1)).map Item.raw) _ (c :: t) (t.drop (n - 1))
      (by intro i hi
          simp only [List.map_cons, List.mem_cons, List.mem_map] at hi
          rcases hi with rfl | ⟨b, hb, rfl⟩
          · exact hgood c hc80
          · exact hgood b (hhigh b hb))
      (by rw [hsem, coerceUtf8]; simp only [hn, hlen, ↓reduceIte]) ih
    rw [hren] at this
    simpa using this


theorem plain_byte_raw (html : Bool) (c : UInt8) (h : tbl html false c = false) : GoodItem html (.raw c) := by
  rw [tbl_spec] at h
  unfold needsEscSpec at h
  simp only [Bool.or_eq_false_iff, decide_eq_false_iff_not, beq_eq_false_iff_ne, Bool.and_eq_false_iff,
    Bool.false_and, Nat.not_lt, ne_eq] at h
  obtain ⟨⟨⟨⟨h1, h2⟩, h3⟩, h4⟩, _⟩ := h
  have e1 := u8eq_iff c 34
  have e2 := u8eq_iff c 92
  have e3 := u8eq_iff c 0
  simp only [UInt8.toNat_ofNat] at e1 e2 e3
  refine ⟨?_, by simp [Item.notHigh], ?_⟩
  · simp only [Item.wf, Bool.not_true, Bool.false_or, Bool.and_eq_true, bne_iff_ne, ne_eq,
      decide_eq_true_eq, e1, e2, e3]
    omega
  · intro b hb hh
    cases hb
    subst hh
    have h4' : (¬c.toNat = 60 ∧ ¬c.toNat = 62) ∧ ¬c.toNat = 38 := by
      rcases h4 with h | h
      · cases h
      · simpa using h
    refine ⟨fun h => ?_, fun h => ?_, fun h => ?_⟩ <;>
      (have := congrArg UInt8.toNat h; simp at this; omega)

theorem escByte_total_raw (html : Bool) (c : UInt8) (ht : tbl html false c = true) :
    (escByte html c).isSome = true := by
  rw [tbl_spec] at ht
  unfold needsEscSpec at ht
  unfold escByte
  simp only [Bool.or_eq_true, decide_eq_true_eq, beq_iff_eq, Bool.and_eq_true, Bool.false_and,
    Bool.or_false, Bool.false_eq_true, or_false] at ht
  have e1 := u8eq_iff c 92
  have e2 := u8eq_iff c 34
  have e6 := u8eq_iff c 60
  have e7 := u8eq_iff c 62
  have e8 := u8eq_iff c 38
  simp only [UInt8.toNat_ofNat] at e1 e2 e6 e7 e8
  (repeat' split) <;> simp_all

/-- **Escaping without UTF-8 normalisation**: well-formed items that denote the input bytes
verbatim (a conforming parser then applies its own U+FFFD replacement). -/
theorem slow_sound_raw (html : Bool) (s : List UInt8) :
    ∃ items, renderAll items = slow html false s ∧ (∀ i ∈ items, GoodItem html i) ∧ sem items = s := by
  induction s with
  | nil => exact ⟨[], by rw [slow]; rfl, by simp, sem_nil⟩
  | cons c t ih =>
    obtain ⟨items, hr, hg, hs⟩ := ih
    rw [slow]
    by_cases h1 : tbl html false c = false
    · simp only [h1, Bool.not_false, ↓reduceIte]
      refine ⟨.raw c :: items, by rw [renderAll_cons, hr]; rfl, ?_, by rw [sem_cons_raw, hs]⟩
      intro i hi
      simp at hi
      rcases hi with rfl | hi
      · exact plain_byte_raw html c h1
      · exact hg i hi
    · have h1' : tbl html false c = true := by simpa using h1
      have h2 := escByte_total_raw html c h1'
      simp only [h1', Bool.not_true, Bool.false_eq_true, ↓reduceIte, h2]
      obtain ⟨e, he⟩ := Option.isSome_iff_exists.mp h2
      obtain ⟨_, pre, hpr, hpg, hps⟩ := escByte_item html c e he
      refine ⟨pre ++ items, by rw [renderAll_append, hpr, hr, he]; rfl, ?_, ?_⟩
      · intro i hi
        rcases List.mem_append.mp hi with h | h
        · exact hpg i h
        · exact hg i h
      · rw [sem_append pre items (fun i hi => (hpg i hi).2.1), hps, hs]; rfl

end GoJson.Model.Str
