import GoJson.Lemmas.SwarList
namespace GoJson.Model.Str
open GoJson

def cleanB (html : Bool) (b : UInt8) : Prop := CleanNat html b.toNat

theorem clean_tbl (html norm : Bool) (b : UInt8) (h : cleanB html b) : tbl html norm b = false := by
  rw [tbl_spec]
  obtain ⟨h1, h2, h3, h4, h5⟩ := h
  unfold needsEscSpec
  cases html <;> cases norm <;> simp_all <;> omega

theorem slow_clean_prefix (html norm : Bool) (pre r : List UInt8) (h : ∀ b ∈ pre, tbl html norm b = false) :
    slow html norm (pre ++ r) = pre ++ slow html norm r := by
  induction pre with
  | nil => simp
  | cons c pre ih =>
    rw [List.cons_append]
    conv => lhs; unfold slow
    simp [h c (by simp), ih (fun b hb => h b (by simp [hb]))]

theorem exists_cons' (s : List UInt8) (h : 0 < s.length) : ∃ b t, s = b :: t := by
  cases s with
  | nil => simp at h
  | cons b t => exact ⟨b, t, rfl⟩

theorem list_ge8 (s : List UInt8) (hl : 8 ≤ s.length) :
    ∃ b0 b1 b2 b3 b4 b5 b6 b7 rest, s = b0 :: b1 :: b2 :: b3 :: b4 :: b5 :: b6 :: b7 :: rest := by
  obtain ⟨b0, t0, rfl⟩ := exists_cons' s (by omega)
  obtain ⟨b1, t1, rfl⟩ := exists_cons' t0 (by simp at hl; omega)
  obtain ⟨b2, t2, rfl⟩ := exists_cons' t1 (by simp at hl; omega)
  obtain ⟨b3, t3, rfl⟩ := exists_cons' t2 (by simp at hl; omega)
  obtain ⟨b4, t4, rfl⟩ := exists_cons' t3 (by simp at hl; omega)
  obtain ⟨b5, t5, rfl⟩ := exists_cons' t4 (by simp at hl; omega)
  obtain ⟨b6, t6, rfl⟩ := exists_cons' t5 (by simp at hl; omega)
  obtain ⟨b7, t7, rfl⟩ := exists_cons' t6 (by simp at hl; omega)
  exact ⟨_, _, _, _, _, _, _, _, _, rfl⟩

/-- all eight bytes of an unflagged word are clean -/
theorem word_clean (html : Bool) (s : List UInt8) (hl : 8 ≤ s.length) (k : Nat) (bound : Nat) (hb : bound ≤ 8)
    (hk : k < bound)
    (hflags : ∀ j, j < bound → flag (mask html (word s)) j = false) : cleanB html (s.getD k 0) := by
  obtain ⟨b0, b1, b2, b3, b4, b5, b6, b7, rest, rfl⟩ := list_ge8 s hl
  have := clean_of_noflags html _ k (by omega) (fun j hj => hflags j (by omega))
  rw [word_bytes _ _ _ _ _ _ _ _ _ k (by omega)] at this
  exact this

theorem swar_some (html : Bool) (s : List UInt8) (j : Nat) (h : swarWords html s = some j) :
    j ≤ 7 ∧ ∀ k, k < j → cleanB html (s.getD k 0) := by
  fun_induction swarWords html s generalizing j
  case case1 s hl => simp at h
  case case2 s hl m hm =>
    simp only [Option.some.injEq] at h
    subst h
    have hm' : m ≠ 0#64 := by simpa using hm
    have htz := tz64_lt m hm'
    refine ⟨by omega, ?_⟩
    intro k hk
    refine word_clean html s (by omega) k (tz64 m / 8) (by omega) hk ?_
    intro jj hjj
    have : m.getLsbD (8 * jj + 7) = false := tz64_below m _ (by omega)
    have hfl : flag m jj = false := this
    rw [flag_and_msb _ jj (by omega)] at hfl
    exact hfl
  case case3 s hl m hm ih =>
    obtain ⟨hj, _⟩ := ih j h
    refine ⟨hj, ?_⟩
    intro k hk
    have hm0 : m = 0#64 := by simpa using hm
    refine word_clean html s (by omega) k 8 (by omega) (by omega) ?_
    intro jj hjj
    have : flag m jj = false := by rw [hm0]; simp [flag]
    rw [flag_and_msb _ jj (by omega)] at this
    exact this

theorem swar_none (html : Bool) (s : List UInt8) (h : swarWords html s = none) :
    ∀ k, k < s.length / 8 * 8 → cleanB html (s.getD k 0) := by
  fun_induction swarWords html s
  case case1 s hl => intro k hk; omega
  case case2 s hl m hm => simp at h
  case case3 s hl m hm ih =>
    intro k hk
    have hm0 : m = 0#64 := by simpa using hm
    by_cases h8 : k < 8
    · refine word_clean html s (by omega) k 8 (by omega) h8 ?_
      intro jj hjj
      have : flag m jj = false := by rw [hm0]; simp [flag]
      rw [flag_and_msb _ jj (by omega)] at this
      exact this
    · have := ih h (k - 8) (by simp only [List.length_drop]; omega)
      rw [List.getD_eq_getElem?_getD, List.getElem?_drop] at this
      rw [List.getD_eq_getElem?_getD]
      have e : 8 + (k - 8) = k := by omega
      rw [e] at this
      exact this

end GoJson.Model.Str
