import GoJson.Model.Compact
namespace GoJson.Model.Compact

/-- the source ends with the NUL terminator -/
def Term (l : List UInt8) : Prop := l.getLast? = some 0

theorem Term_ne_nil (l : List UInt8) (h : Term l) : l ≠ [] := by
  intro hl; subst hl; simp [Term] at h

theorem Term_drop (l : List UInt8) (n : Nat) (h : Term l) (hn : n < l.length) : Term (l.drop n) := by
  unfold Term at *
  rw [List.getLast?_drop]
  simp [h]; omega

theorem Term_tail (c : UInt8) (r : List UInt8) (h : Term (c :: r)) (hc : c ≠ 0) : Term r := by
  have hr : r ≠ [] := by
    intro hr; subst hr; simp [Term] at h; exact hc h
  have hlen : 0 < r.length := by
    cases r with
    | nil => exact absurd rfl hr
    | cons _ _ => simp
  have := Term_drop (c :: r) 1 h (by simp only [List.length_cons]; omega)
  simpa using this

theorem ws0 : wsTbl 0 = false := by decide +kernel
theorem float0 : floatTbl 0 = false := by decide +kernel

theorem skipWs_term : ∀ s : List UInt8, Term s → Term (skipWs s)
  | [], h => absurd rfl (Term_ne_nil _ h)
  | b :: r, h => by
    unfold skipWs
    by_cases hb : wsTbl b = true
    · simp only [hb, if_true]
      have hb0 : b ≠ 0 := by intro h0; subst h0; rw [ws0] at hb; cases hb
      exact skipWs_term r (Term_tail b r h hb0)
    · simp only [hb, if_false, Bool.false_eq_true]
      exact h

theorem munch_term : ∀ r : List UInt8, Term r → Term (munch r).2
  | [], h => absurd rfl (Term_ne_nil _ h)
  | b :: r, h => by
    unfold munch
    by_cases hb : floatTbl b = true
    · simp only [hb, if_true]
      have hb0 : b ≠ 0 := by intro h0; subst h0; rw [float0] at hb; cases hb
      exact munch_term r (Term_tail b r h hb0)
    · simp only [hb, if_false, Bool.false_eq_true]
      exact h


/-- the string body scanner stops at the closing quote or fails: what it leaves is terminated -/
theorem cbody_term (escape : Bool) (n : Nat) : ∀ l : List UInt8, l.length ≤ n → Term l →
    ∀ o rest, cbody escape l = some (o, rest) → Term rest := by
  induction n with
  | zero =>
    intro l hl ht
    have : l = [] := List.eq_nil_of_length_eq_zero (by omega)
    exact absurd this (Term_ne_nil l ht)
  | succ n ih =>
    intro l hl ht o rest h
    cases l with
    | nil => exact absurd rfl (Term_ne_nil _ ht)
    | cons c r =>
      simp only [List.length_cons] at hl
      unfold cbody at h
      by_cases h34 : (c == 34) = true
      · simp only [h34, if_true, Option.some.injEq, Prod.mk.injEq] at h
        have hc0 : c ≠ 0 := by intro h0; subst h0; simp at h34
        rw [← h.2]
        exact Term_tail c r ht hc0
      · simp only [h34, if_false, Bool.false_eq_true] at h
        by_cases h92 : (c == 92) = true
        · simp only [h92, if_true] at h
          have hc0 : c ≠ 0 := by intro h0; subst h0; simp at h92
          have htr := Term_tail c r ht hc0
          cases r with
          | nil => cases h
          | cons e r2 =>
            simp only at h
            simp only [List.length_cons] at hl
            by_cases hs : isSimpleEsc e = true
            · simp only [hs, if_true] at h
              have he0 : e ≠ 0 := by intro h0; subst h0; simp [isSimpleEsc] at hs
              have htr2 := Term_tail e r2 htr he0
              cases hb : cbody escape r2 with
              | none => rw [hb] at h; cases h
              | some x =>
                obtain ⟨o2, rest2⟩ := x
                rw [hb] at h
                simp only [Option.some.injEq, Prod.mk.injEq] at h
                rw [← h.2]
                exact ih r2 (by omega) htr2 o2 rest2 hb
            · simp only [hs, if_false, Bool.false_eq_true] at h
              by_cases hu : (e == 117) = true
              · simp only [hu, if_true] at h
                have he0 : e ≠ 0 := by intro h0; subst h0; simp at hu
                have htr2 := Term_tail e r2 htr he0
                by_cases hlen : r2.length < 4
                · simp [hlen] at h
                · simp only [hlen, if_false] at h
                  split at h
                  · rename_i hhex
                    -- four hex digits: none of them is the terminator, so at least one more byte follows
                    have hne : (r2.drop 4) ≠ [] := by
                      intro hd
                      have hl4 : r2.length = 4 := by
                        have := List.drop_eq_nil_iff.mp hd
                        omega
                      have hlast : r2.getLast? = some (r2.getD 3 0) := by
                        match r2, hl4 with
                        | [a, b, c', d], _ => rfl
                      unfold Term at htr2
                      rw [hlast] at htr2
                      simp only [Option.some.injEq] at htr2
                      simp only [Bool.and_eq_true] at hhex
                      rw [htr2] at hhex
                      simp [isHex] at hhex
                    have htd : Term (r2.drop 4) := by
                      apply Term_drop r2 4 htr2
                      have : (r2.drop 4).length ≠ 0 := fun hz => hne (List.eq_nil_of_length_eq_zero hz)
                      simp only [List.length_drop] at this
                      omega
                    cases hb : cbody escape (r2.drop 4) with
                    | none => rw [hb] at h; cases h
                    | some x =>
                      obtain ⟨o2, rest2⟩ := x
                      rw [hb] at h
                      simp only [Option.some.injEq, Prod.mk.injEq] at h
                      rw [← h.2]
                      exact ih (r2.drop 4) (by simp only [List.length_drop]; omega) htd o2 rest2 hb
                  · cases h
              · simp [hu] at h
        · simp only [h92, if_false, Bool.false_eq_true] at h
          by_cases hctl : c.toNat < 0x20
          · simp [hctl] at h
          · simp only [hctl, if_false] at h
            have hc0 : c ≠ 0 := by intro h0; subst h0; simp at hctl
            have htr := Term_tail c r ht hc0
            split at h
            · cases hb : cbody escape r with
              | none => rw [hb] at h; cases h
              | some x =>
                obtain ⟨o2, rest2⟩ := x
                rw [hb] at h
                simp only [Option.some.injEq, Prod.mk.injEq] at h
                rw [← h.2]
                exact ih r (by omega) htr o2 rest2 hb
            · split at h
              · rename_i hsep
                simp only [Bool.and_eq_true, decide_eq_true_eq, beq_iff_eq, Bool.or_eq_true] at hsep
                obtain ⟨⟨⟨⟨_, _⟩, hl2⟩, h80⟩, hA⟩ := hsep
                -- the two bytes are 0x80 and 0xA8/0xA9: not the terminator, so a byte follows them
                have hne : (r.drop 2) ≠ [] := by
                  intro hd
                  have hl2' : r.length = 2 := by
                    have := List.drop_eq_nil_iff.mp hd
                    omega
                  have hlast : r.getLast? = some (r.getD 1 0) := by
                    match r, hl2' with
                    | [a, b], _ => rfl
                  unfold Term at htr
                  rw [hlast] at htr
                  simp only [Option.some.injEq] at htr
                  rw [htr] at hA
                  rcases hA with hA | hA <;> simp at hA
                have htd : Term (r.drop 2) := by
                  apply Term_drop r 2 htr
                  have : (r.drop 2).length ≠ 0 := fun hz => hne (List.eq_nil_of_length_eq_zero hz)
                  simp only [List.length_drop] at this
                  omega
                cases hb : cbody escape (r.drop 2) with
                | none => rw [hb] at h; cases h
                | some x =>
                  obtain ⟨o2, rest2⟩ := x
                  rw [hb] at h
                  simp only [Option.some.injEq, Prod.mk.injEq] at h
                  rw [← h.2]
                  exact ih (r.drop 2) (by simp only [List.length_drop]; omega) htd o2 rest2 hb
              · cases hb : cbody escape r with
                | none => rw [hb] at h; cases h
                | some x =>
                  obtain ⟨o2, rest2⟩ := x
                  rw [hb] at h
                  simp only [Option.some.injEq, Prod.mk.injEq] at h
                  rw [← h.2]
                  exact ih r (by omega) htr o2 rest2 hb

/-- a scanner result that neither left the buffer nor left an unterminated rest -/
def Good (r : CR) : Prop :=
  match r with
  | .ok _ rest => Term rest
  | .err => True
  | .oob => False

theorem cstring_good (escape : Bool) (s : List UInt8) (h : Term s) : Good (cstring escape s) := by
  unfold cstring
  split
  · rename_i r
    have hr : Term r := Term_tail 34 r h (by decide)
    cases hb : cbody escape r with
    | none => simp [Good]
    | some x =>
      obtain ⟨o, rest⟩ := x
      simp only [Good]
      exact cbody_term escape r.length r (Nat.le_refl _) hr o rest hb
  · simp [Good]

theorem cnumber_good (b : UInt8) (r : List UInt8) (h : Term r) : Good (cnumber b r) := by
  unfold cnumber
  simp only
  split
  · simp only [Good]; exact munch_term r h
  · simp [Good]

theorem clit_good (expect s : List UInt8) (h : Term s) (hexp : ∀ x ∈ expect, x ≠ 0) : Good (clit expect s) := by
  unfold clit
  split
  · simp [Good]
  · rename_i hlen
    split
    · rename_i heq
      simp only [Good]
      -- the terminator is not among the matched bytes, so the source is longer than the literal
      have hlt : expect.length < s.length := by
        rcases Nat.lt_or_ge expect.length s.length with h1 | h1
        · exact h1
        · exfalso
          have hl : s.length = expect.length := by omega
          have hs : s = expect := by
            have := (beq_iff_eq).mp heq
            rw [← this, List.take_of_length_le (by omega)]
          unfold Term at h
          rw [hs] at h
          have hm := List.mem_of_getLast? h
          exact hexp 0 hm rfl
      exact Term_drop s expect.length h hlt
    · simp [Good]

theorem skipWs_cons (s : List UInt8) (h : Term s) : ∃ b r, skipWs s = b :: r ∧ Term (b :: r) := by
  have ht := skipWs_term s h
  cases hs : skipWs s with
  | nil => rw [hs] at ht; exact absurd rfl (Term_ne_nil _ ht)
  | cons b r => exact ⟨b, r, rfl, by rw [hs] at ht; exact ht⟩

/-- **no scanner of Compact / Indent reads past the terminator**, and each leaves a terminated rest -/
theorem all_good (escape : Bool) (lay : Layout) : ∀ fuel depth s, Term s →
    Good (cvalue escape lay fuel depth s) ∧ Good (celements escape lay fuel depth s) ∧
      Good (cmembers escape lay fuel depth s) := by
  intro fuel
  induction fuel with
  | zero => intro depth s _; simp [cvalue, celements, cmembers, Good]
  | succ fuel ih =>
    intro depth s hs
    refine ⟨?_, ?_, ?_⟩
    · -- cvalue
      unfold cvalue
      obtain ⟨b, r, hsk, htb⟩ := skipWs_cons s hs
      rw [hsk]
      simp only
      by_cases hb0 : b = 0
      · subst hb0
        simp [Good]
      · have hr : Term r := Term_tail b r htb hb0
        by_cases h123 : (b == 123) = true
        · simp only [h123, if_true]
          split
          · simp [Good]
          · obtain ⟨c, r2, hsk2, htc⟩ := skipWs_cons r hr
            rw [hsk2]
            simp only
            by_cases h125 : (c == 125) = true
            · simp only [h125, if_true, Good]
              have hc0 : c ≠ 0 := by intro h0; subst h0; simp at h125
              exact Term_tail c r2 htc hc0
            · simp only [h125, if_false, Bool.false_eq_true]
              have := (ih (depth + 1) (c :: r2) htc).2.2
              cases hm : cmembers escape lay fuel (depth + 1) (c :: r2) with
              | ok o rest => rw [hm] at this; simpa [Good] using this
              | err => simp [Good]
              | oob => rw [hm] at this; simp [Good] at this
        · simp only [h123, if_false, Bool.false_eq_true]
          by_cases h91 : (b == 91) = true
          · simp only [h91, if_true]
            split
            · simp [Good]
            · obtain ⟨c, r2, hsk2, htc⟩ := skipWs_cons r hr
              rw [hsk2]
              simp only
              by_cases h93 : (c == 93) = true
              · simp only [h93, if_true, Good]
                have hc0 : c ≠ 0 := by intro h0; subst h0; simp at h93
                exact Term_tail c r2 htc hc0
              · simp only [h93, if_false, Bool.false_eq_true]
                have := (ih (depth + 1) (c :: r2) htc).2.1
                cases hm : celements escape lay fuel (depth + 1) (c :: r2) with
                | ok o rest => rw [hm] at this; simpa [Good] using this
                | err => simp [Good]
                | oob => rw [hm] at this; simp [Good] at this
          · simp only [h91, if_false, Bool.false_eq_true]
            by_cases h34 : (b == 34) = true
            · simp only [h34, if_true]
              exact cstring_good escape (b :: r) htb
            · simp only [h34, if_false, Bool.false_eq_true]
              split
              · exact cnumber_good b r hr
              · split
                · exact clit_good _ (b :: r) htb (by decide)
                · split
                  · exact clit_good _ (b :: r) htb (by decide)
                  · split
                    · exact clit_good _ (b :: r) htb (by decide)
                    · simp [Good]
    · -- celements
      unfold celements
      have hv := (ih depth s hs).1
      cases hcv : cvalue escape lay fuel depth s with
      | err => simp [Good]
      | oob => rw [hcv] at hv; simp [Good] at hv
      | ok o rest =>
        rw [hcv] at hv
        simp only [Good] at hv
        simp only
        obtain ⟨c, r, hsk, htc⟩ := skipWs_cons rest hv
        rw [hsk]
        simp only
        by_cases h93 : (c == 93) = true
        · simp only [h93, if_true, Good]
          have hc0 : c ≠ 0 := by intro h0; subst h0; simp at h93
          exact Term_tail c r htc hc0
        · simp only [h93, if_false, Bool.false_eq_true]
          by_cases h44 : (c == 44) = true
          · simp only [h44, if_true]
            have hc0 : c ≠ 0 := by intro h0; subst h0; simp at h44
            have := (ih depth r (Term_tail c r htc hc0)).2.1
            cases hm : celements escape lay fuel depth r with
            | ok o2 rest2 => rw [hm] at this; simpa [Good] using this
            | err => simp [Good]
            | oob => rw [hm] at this; simp [Good] at this
          · simp [h44, Good]
    · -- cmembers
      unfold cmembers
      have hk := cstring_good escape (skipWs s) (skipWs_term s hs)
      cases hcs : cstring escape (skipWs s) with
      | err => simp [Good]
      | oob => rw [hcs] at hk; simp [Good] at hk
      | ok k afterKey =>
        rw [hcs] at hk
        simp only [Good] at hk
        simp only
        obtain ⟨c, r2, hsk, htc⟩ := skipWs_cons afterKey hk
        rw [hsk]
        simp only
        by_cases h58 : (c != 58) = true
        · simp [h58, Good]
        · simp only [h58, if_false, Bool.false_eq_true]
          have hc58 : c = 58 := by simpa using h58
          have hc0 : c ≠ 0 := by rw [hc58]; decide
          have hv := (ih depth r2 (Term_tail c r2 htc hc0)).1
          cases hcv : cvalue escape lay fuel depth r2 with
          | err => simp [Good]
          | oob => rw [hcv] at hv; simp [Good] at hv
          | ok o rest =>
            rw [hcv] at hv
            simp only [Good] at hv
            simp only
            obtain ⟨e, r3, hsk3, hte⟩ := skipWs_cons rest hv
            rw [hsk3]
            simp only
            by_cases h125 : (e == 125) = true
            · simp only [h125, if_true, Good]
              have he0 : e ≠ 0 := by intro h0; subst h0; simp at h125
              exact Term_tail e r3 hte he0
            · simp only [h125, if_false, Bool.false_eq_true]
              by_cases h44 : (e == 44) = true
              · simp only [h44, if_true]
                have he0 : e ≠ 0 := by intro h0; subst h0; simp at h44
                have := (ih depth r3 (Term_tail e r3 hte he0)).2.2
                cases hm : cmembers escape lay fuel depth r3 with
                | ok o2 rest2 => rw [hm] at this; simpa [Good] using this
                | err => simp [Good]
                | oob => rw [hm] at this; simp [Good] at this
              · simp [h44, Good]

end GoJson.Model.Compact
