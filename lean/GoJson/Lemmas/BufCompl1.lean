import GoJson.Lemmas.BufNum
import GoJson.Lemmas.BufSound2
namespace GoJson.Model.BufDec
open GoJson GoJson.Spec GoJson.Model.StrDec

theorem exists_cons'' (s : List UInt8) (h : 0 < s.length) : ∃ b t, s = b :: t := by
  cases s with
  | nil => simp at h
  | cons b t => exact ⟨b, t, rfl⟩

def EndOk (rest : List UInt8) : Prop := ∃ c t, rest = c :: t ∧ validEnd c = true

theorem skipWs_ws_append (w s : List UInt8) (hw : AllWs w) : skipWs (w ++ s) = skipWs s := by
  induction w with
  | nil => rfl
  | cons b w ih =>
    have hb : wsTbl b = true := by rw [wsTbl_spec]; exact hw b (by simp)
    simp only [List.cons_append, skipWs, hb, ↓reduceIte]
    exact ih (fun x hx => hw x (by simp [hx]))

theorem skipWs_nonws (b : UInt8) (t : List UInt8) (hb : isWsByte b = false) : skipWs (b :: t) = b :: t := by
  have : wsTbl b = false := by rw [wsTbl_spec]; exact hb
  simp [skipWs, this]

theorem skipWs_idem (s : List UInt8) : skipWs (skipWs s) = skipWs s := by
  obtain ⟨w, hs, hw, hh⟩ := skipWs_split s
  cases hsk : skipWs s with
  | nil => rfl
  | cons b r => exact skipWs_nonws b r (hh b r hsk)

theorem value_skipWs (range : Bool) (fuel depth : Nat) (s : List UInt8) :
    value range fuel depth (skipWs s) = value range fuel depth s := by
  cases fuel with
  | zero => unfold value; rfl
  | succ f => unfold value; rw [skipWs_idem]

theorem value_ws (range : Bool) (fuel depth : Nat) (w s : List UInt8) (hw : AllWs w) :
    value range fuel depth (w ++ s) = value range fuel depth s := by
  rw [← value_skipWs, skipWs_ws_append w s hw, value_skipWs]

theorem elements_skipWs (range : Bool) (fuel depth : Nat) (s : List UInt8) :
    elements range fuel depth (skipWs s) = elements range fuel depth s := by
  cases fuel with
  | zero => unfold elements; rfl
  | succ f => unfold elements; rw [value_skipWs]

theorem members_skipWs (range : Bool) (fuel depth : Nat) (s : List UInt8) :
    members range fuel depth (skipWs s) = members range fuel depth s := by
  cases fuel with
  | zero => unfold members; rfl
  | succ f => unfold members; rw [skipWs_idem]

theorem ws_validEnd (b : UInt8) (h : isWsByte b = true) : validEnd b = true := by
  have h1 := validEnd_fin ⟨b.toNat, b.toNat_lt⟩
  simp only [validEnd] at *
  rw [h1]
  simp only [isWsByte, u8beq, UInt8.toNat_ofNat, Nat.reducePow, Nat.reduceMod, Bool.or_eq_true, beq_iff_eq] at h ⊢
  omega

theorem endOk_ws_then (w : List UInt8) (c : UInt8) (t : List UInt8) (hw : AllWs w) (hc : validEnd c = true) :
    EndOk (w ++ c :: t) := by
  cases w with
  | nil => exact ⟨c, t, rfl, hc⟩
  | cons b w' => exact ⟨b, w' ++ c :: t, rfl, ws_validEnd b (hw b (by simp))⟩

/-- first byte of a value: not white space, not a closing bracket, not a comma -/
theorem value_head (rx : Relax) (range : Bool) (d : Nat) (v : List UInt8) (h : Value rx range d v) :
    ∃ b t, v = b :: t ∧ isWsByte b = false ∧ b ≠ 93 ∧ b ≠ 125 := by
  cases h with
  | null => exact ⟨110, _, rfl, by decide, by decide, by decide⟩
  | true_ => exact ⟨116, _, rfl, by decide, by decide, by decide⟩
  | false_ => exact ⟨102, _, rfl, by decide, by decide, by decide⟩
  | num _ _ hn _ =>
    obtain ⟨b, r, ht, hb, _⟩ := isNumber_alpha v hn
    refine ⟨b, r, ht, ?_, ?_, ?_⟩
    all_goals
      rcases hb with rfl | hb
      · decide
      · simp only [isDig, Bool.and_eq_true, decide_eq_true_eq] at hb
        first
          | (simp only [isWsByte, u8beq, UInt8.toNat_ofNat, Nat.reducePow, Nat.reduceMod, Bool.or_eq_false_iff, beq_eq_false_iff_ne, ne_eq]; omega)
          | (intro hc; subst hc; simp at hb)
  | str _ items _ => exact ⟨34, _, rfl, by decide, by decide, by decide⟩
  | arrEmpty _ w _ => exact ⟨91, _, rfl, by decide, by decide, by decide⟩
  | arr _ body _ => exact ⟨91, _, rfl, by decide, by decide, by decide⟩
  | objEmpty _ w _ => exact ⟨123, _, rfl, by decide, by decide, by decide⟩
  | obj _ body _ => exact ⟨123, _, rfl, by decide, by decide, by decide⟩

end GoJson.Model.BufDec
