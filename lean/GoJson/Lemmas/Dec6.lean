import GoJson.Model.Dec
namespace GoJson.Model.Dec
open GoJson GoJson.Model.BufDec

def eraseV : PR → R
  | .ok _ rest => .ok rest
  | .err => .err
  | .oob => .oob
def eraseEs : PRs → R
  | .ok _ rest => .ok rest
  | .err => .err
  | .oob => .oob
def eraseMs : PRm → R
  | .ok _ rest => .ok rest
  | .err => .err
  | .oob => .oob

theorem erase_number (range : Bool) (b : UInt8) (r : List UInt8) :
    eraseV (numberValue range b r) = number range b r := by
  unfold numberValue number
  cases (munch r).2 with
  | nil => rfl
  | cons c rest =>
    simp only
    by_cases h1 : validEnd c = true
    · by_cases h2 : Spec.isNumber (b :: (munch r).1) = true
      · by_cases h3 : (range && !Spec.inF64Range (b :: (munch r).1)) = true
        · simp [h1, h2, h3, eraseV]
        · simp [h1, h2, h3, eraseV]
      · simp [h1, h2, eraseV]
    · simp [h1, eraseV]

theorem erase_lit (expect : List UInt8) (v : JT) (s : List UInt8) :
    eraseV (litValue expect v s) = lit expect s := by
  unfold litValue lit
  split
  · rfl
  · split <;> rfl

theorem erase_string (r : List UInt8) :
    (match stringValue r with
      | .ok (_, rest) => R.ok rest
      | .error true => R.oob
      | .error false => R.err) = stringTail r := by
  unfold stringValue stringTail
  cases StrDec.scanBody r with
  | ok x => obtain ⟨body, n, esc⟩ := x; rfl
  | error e => cases e <;> rfl

/-- building the tree changes nothing about what is accepted and where the value ends -/
theorem erase_all (range : Bool) (fuel : Nat) :
    (∀ d s, eraseV (value range fuel d s) = BufDec.value range fuel d s) ∧
    (∀ d s, eraseEs (elements range fuel d s) = BufDec.elements range fuel d s) ∧
    (∀ d s, eraseMs (members range fuel d s) = BufDec.members range fuel d s) := by
  induction fuel with
  | zero =>
    refine ⟨?_, ?_, ?_⟩ <;> intro d s
    · simp [value, BufDec.value, eraseV]
    · simp [elements, BufDec.elements, eraseEs]
    · simp [members, BufDec.members, eraseMs]
  | succ fuel ih =>
    obtain ⟨ihv, ihe, ihm⟩ := ih
    refine ⟨?_, ?_, ?_⟩
    · intro d s
      unfold value BufDec.value
      cases skipWs s with
      | nil => rfl
      | cons b r =>
        simp only
        by_cases h123 : (b == 123) = true
        · simp only [h123, if_true]
          by_cases hd : d + 1 > maxDepth
          · simp [hd, eraseV]
          · simp only [hd, if_false]
            cases skipWs r with
            | nil => rfl
            | cons c r2 =>
              simp only
              by_cases hc : (c == 125) = true
              · simp [hc, eraseV]
              · simp only [hc, if_false, Bool.false_eq_true]
                rw [← ihm (d + 1) (c :: r2)]
                cases members range fuel (d + 1) (c :: r2) <;> rfl
        · simp only [h123, if_false, Bool.false_eq_true]
          by_cases h91 : (b == 91) = true
          · simp only [h91, if_true]
            by_cases hd : d + 1 > maxDepth
            · simp [hd, eraseV]
            · simp only [hd, if_false]
              cases skipWs r with
              | nil => rfl
              | cons c r2 =>
                simp only
                by_cases hc : (c == 93) = true
                · simp [hc, eraseV]
                · simp only [hc, if_false, Bool.false_eq_true]
                  rw [← ihe (d + 1) (c :: r2)]
                  cases elements range fuel (d + 1) (c :: r2) <;> rfl
          · simp only [h91, if_false, Bool.false_eq_true]
            by_cases hnum : (b == 45 || (decide (48 ≤ b.toNat) && decide (b.toNat ≤ 57))) = true
            · simp only [hnum, if_true]; exact erase_number range b r
            · simp only [hnum, if_false, Bool.false_eq_true]
              by_cases h34 : (b == 34) = true
              · simp only [h34, if_true]
                rw [← erase_string r]
                cases stringValue r with
                | ok x => obtain ⟨a, b⟩ := x; rfl
                | error e => cases e <;> rfl
              · simp only [h34, if_false, Bool.false_eq_true]
                by_cases h116 : (b == 116) = true
                · simp only [h116, if_true]; exact erase_lit _ _ _
                · simp only [h116, if_false, Bool.false_eq_true]
                  by_cases h102 : (b == 102) = true
                  · simp only [h102, if_true]; exact erase_lit _ _ _
                  · simp only [h102, if_false, Bool.false_eq_true]
                    by_cases h110 : (b == 110) = true
                    · simp only [h110, if_true]; exact erase_lit _ _ _
                    · simp [h110, eraseV]
    · intro d s
      unfold elements BufDec.elements
      rw [← ihv d s]
      cases value range fuel d s with
      | ok v rest =>
        simp only [eraseV]
        cases skipWs rest with
        | nil => rfl
        | cons c r =>
          simp only
          by_cases h93 : (c == 93) = true
          · simp [h93, eraseEs]
          · simp only [h93, if_false, Bool.false_eq_true]
            by_cases h44 : (c == 44) = true
            · simp only [h44, if_true]
              rw [← ihe d r]
              cases elements range fuel d r <;> rfl
            · simp [h44, eraseEs]
      | err => rfl
      | oob => rfl
    · intro d s
      unfold members BufDec.members
      cases skipWs s with
      | nil => rfl
      | cons q r =>
        simp only
        by_cases hq : (q != 34) = true
        · simp [hq, eraseMs]
        · simp only [hq, if_false, Bool.false_eq_true]
          rw [← erase_string r]
          cases stringValue r with
          | error e => cases e <;> rfl
          | ok x =>
            obtain ⟨k, afterKey⟩ := x
            simp only
            cases skipWs afterKey with
            | nil => rfl
            | cons c r2 =>
              simp only
              by_cases hc : (c != 58) = true
              · simp [hc, eraseMs]
              · simp only [hc, if_false, Bool.false_eq_true]
                rw [← ihv d r2]
                cases value range fuel d r2 with
                | err => rfl
                | oob => rfl
                | ok v rest =>
                  simp only [eraseV]
                  cases skipWs rest with
                  | nil => rfl
                  | cons e r3 =>
                    simp only
                    by_cases h125 : (e == 125) = true
                    · simp [h125, eraseMs]
                    · simp only [h125, if_false, Bool.false_eq_true]
                      by_cases h44 : (e == 44) = true
                      · simp only [h44, if_true]
                        rw [← ihm d r3]
                        cases members range fuel d r3 <;> rfl
                      · simp [h44, eraseMs]

/-- `Unmarshal` into interface{} yields a value exactly for the texts the recogniser accepts -/
theorem unmarshal_isSome (range : Bool) (b : List UInt8) :
    (unmarshal range b).isSome = BufDec.accepts range b := by
  unfold unmarshal BufDec.accepts
  rw [← (erase_all range (2 * b.length + 4)).1 0 (b ++ [0])]
  cases value range (2 * b.length + 4) 0 (b ++ [0]) with
  | ok v rest =>
    simp only [eraseV]
    by_cases h : (skipWs rest == [0]) = true <;> simp [h]
  | err => rfl
  | oob => rfl

end GoJson.Model.Dec
