import GoJson.Model.Enc
import GoJson.Lemmas.Decimal
import GoJson.Lemmas.BufNum
import GoJson.Lemmas.CompactSpec
import GoJson.Props.C17
namespace GoJson.Model.Enc
open GoJson GoJson.Spec GoJson.Model.Compact

/-! ### tokens -/

theorem dropDigits_all (l : List UInt8) (h : ∀ b ∈ l, isDigit b = true) : (dropDigits l).2 = [] := by
  induction l with
  | nil => rfl
  | cons b r ih =>
    have hb : isDig b = true := by
      have := h b (by simp)
      simpa [isDig, isDigit] using this
    simp only [dropDigits, hb, if_true]
    exact ih (fun x hx => h x (by simp [hx]))

theorem numBody_decNat (n : Nat) : numBody (decNat n) = true := by
  by_cases h0 : n = 0
  · subst h0
    have : decNat 0 = [48] := by rw [decNat_lt10 (by omega)]; rfl
    rw [this]
    simp [numBody, numInt, numFrac, numExp]
  · obtain ⟨b, rest, hd, hne, hdig⟩ := decNat_head n (by omega)
    have hall := decNat_all_digits n
    rw [hd] at hall
    have hrest : (dropDigits rest).2 = [] := dropDigits_all rest (fun x hx => hall x (by simp [hx]))
    have hbd : isDig b = true := by simpa [isDig, isDigit] using hdig
    rw [hd]
    have hint : numInt (b :: rest) = some [] := by
      unfold numInt
      split
      · rename_i heq; simp only [List.cons.injEq] at heq; exact absurd heq.1 hne
      · rename_i b' r' _ heq
        simp only [List.cons.injEq] at heq
        obtain ⟨rfl, rfl⟩ := heq
        simp [hbd, hrest]
      · rename_i heq; cases heq
    simp [numBody, hint, numFrac, numExp]

theorem isNumber_decInt (i : Int) : isNumber (decInt i) = true := by
  unfold decInt
  split
  · simp only [isNumber]; exact numBody_decNat _
  · have := numBody_decNat i.toNat
    unfold isNumber
    split
    · rename_i r heq
      exact absurd heq (decNat_head_ne_minus _ r)
    · exact this

/-- bytes that stand for themselves inside a JSON string -/
def plainByte (b : UInt8) : Bool := 0x20 ≤ b.toNat && b != 34 && b != 92

theorem plain_items (t : List UInt8) (h : ∀ b ∈ t, plainByte b = true) :
    ∃ items : List Item, renderAll items = t ∧ ∀ i ∈ items, i.wf true = true := by
  refine ⟨t.map Item.raw, ?_, ?_⟩
  · induction t with
    | nil => rfl
    | cons b r ih =>
      simp only [List.map_cons, renderAll, List.flatMap_cons, Item.render]
      have := ih (fun x hx => h x (by simp [hx]))
      simp only [renderAll] at this
      rw [this]; rfl
  · intro i hi
    obtain ⟨b, hb, rfl⟩ := List.mem_map.mp hi
    have := h b hb
    simp only [plainByte, Bool.and_eq_true, decide_eq_true_eq, bne_iff_ne, ne_eq] at this
    obtain ⟨⟨h1, h2⟩, h3⟩ := this
    have h0 : b ≠ 0 := by
      intro hz; subst hz; simp at h1
    simp [Item.wf, h1, h2, h3, h0]

theorem quote_cval (lay : Layout) (n : Nat) (t : List UInt8) (h : ∀ b ∈ t, plainByte b = true) :
    CVal lay n (quote t) (quote t) := by
  obtain ⟨items, hr, hwf⟩ := plain_items t h
  unfold quote
  rw [← hr]
  exact CVal.str n items hwf

theorem digit_plain (b : UInt8) (h : isDigit b = true) : plainByte b = true := by
  simp only [isDigit, Bool.and_eq_true, decide_eq_true_eq] at h
  simp only [plainByte, Bool.and_eq_true, decide_eq_true_eq, bne_iff_ne, ne_eq]
  refine ⟨⟨by omega, ?_⟩, ?_⟩
  · intro hb; subst hb; simp at h
  · intro hb; subst hb; simp at h

theorem decInt_plain (i : Int) : ∀ b ∈ decInt i, plainByte b = true := by
  intro b hb
  unfold decInt at hb
  split at hb
  · simp only [List.mem_cons] at hb
    rcases hb with rfl | hb
    · decide
    · exact digit_plain b (decNat_all_digits _ b hb)
  · exact digit_plain b (decNat_all_digits _ b hb)

theorem floatTbl_plain (x : UInt8) (h : BufDec.floatTbl x = true) : plainByte x = true := by
  have h2 := BufDec.floatTbl_fin ⟨x.toNat, x.toNat_lt⟩
  simp only [BufDec.floatTbl] at h
  rw [h2] at h
  simp only [plainByte, Bool.and_eq_true, decide_eq_true_eq, bne_iff_ne, ne_eq]
  simp only [Bool.or_eq_true, Bool.and_eq_true, decide_eq_true_eq, beq_iff_eq] at h
  refine ⟨⟨by omega, ?_⟩, ?_⟩
  · intro hb; subst hb; simp at h
  · intro hb; subst hb; simp at h

theorem number_plain (t : List UInt8) (h : isNumber t = true) : ∀ b ∈ t, plainByte b = true := by
  obtain ⟨b0, r, rfl, hb0, hr⟩ := BufDec.isNumber_alpha t h
  intro b hb
  simp only [List.mem_cons] at hb
  rcases hb with rfl | hb
  · rcases hb0 with rfl | hd
    · decide
    · exact digit_plain _ (by simpa [isDig, isDigit] using hd)
  · exact floatTbl_plain b (hr b hb)

theorem bool_plain (b : Bool) : ∀ x ∈ boolB b, plainByte x = true := by
  cases b <;> decide

/-- an escaped string is a JSON string token -/
theorem escape_cval (html : Bool) (lay : Layout) (n : Nat) (s : List UInt8) :
    CVal lay n (Str.escape html true s) (Str.escape html true s) := by
  obtain ⟨items, hr, hg, _⟩ := GoJson.Props.C17.escape_faithful_norm html s
  rw [hr]
  exact CVal.str n items (fun i hi => (hg i hi).1)

theorem escape_key (html : Bool) (s : List UInt8) :
    ∃ items : List Item, Str.escape html true s = 34 :: renderAll items ++ [34] ∧ ∀ i ∈ items, i.wf true = true := by
  obtain ⟨items, hr, hg, _⟩ := GoJson.Props.C17.escape_faithful_norm html s
  exact ⟨items, hr, fun i hi => (hg i hi).1⟩

end GoJson.Model.Enc
