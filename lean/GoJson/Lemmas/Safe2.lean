import GoJson.Lemmas.Safe1
import GoJson.Lemmas.BufTables
namespace GoJson.Model.BufDec
open GoJson GoJson.Model.StrDec

theorem ws_zero : wsTbl 0 = false := by rw [wsTbl_spec]; decide
theorem float_zero : floatTbl 0 = false := by
  have := floatTbl_fin ⟨0, by decide⟩
  simp only [floatTbl]
  rw [show (0 : UInt8).toNat = 0 from rfl, this]; decide

theorem skipWs_term : ∀ s : List UInt8, Term s → Term (skipWs s)
  | [], h => absurd rfl (Term_ne_nil _ h)
  | b :: r, h => by
    unfold skipWs
    by_cases hw : wsTbl b = true
    · simp only [hw, if_true]
      have hb : b ≠ 0 := by intro hb; subst hb; rw [ws_zero] at hw; cases hw
      exact skipWs_term r (Term_tail b r h hb)
    · simp only [hw, if_false, Bool.false_eq_true]; exact h

theorem munch_term : ∀ r : List UInt8, Term r → Term (munch r).2
  | [], h => absurd rfl (Term_ne_nil _ h)
  | b :: r, h => by
    unfold munch
    by_cases hf : floatTbl b = true
    · simp only [hf, if_true]
      have hb : b ≠ 0 := by intro hb; subst hb; rw [float_zero] at hf; cases hf
      exact munch_term r (Term_tail b r h hb)
    · simp only [hf, if_false, Bool.false_eq_true]; exact h

theorem number_term (range : Bool) (b : UInt8) (r : List UInt8) (h : Term r) :
    number range b r ≠ .oob ∧ ∀ rest, number range b r = .ok rest → Term rest := by
  have hm := munch_term r h
  unfold number
  cases hr : (munch r).2 with
  | nil => rw [hr] at hm; exact absurd rfl (Term_ne_nil _ hm)
  | cons c rest =>
    simp only
    rw [hr] at hm
    refine ⟨?_, ?_⟩
    · split
      · simp
      · split
        · simp
        · split <;> simp
    · intro rest' hh
      split at hh
      · cases hh
      · split at hh
        · cases hh
        · split at hh
          · cases hh
          · simp only [R.ok.injEq] at hh; rw [← hh]; exact hm

theorem stringTail_term (r : List UInt8) (h : Term r) :
    stringTail r ≠ .oob ∧ ∀ rest, stringTail r = .ok rest → Term rest := by
  obtain ⟨h1, h2⟩ := scanBody_term r.length r (Nat.le_refl _) h
  unfold stringTail
  cases hs : scanBody r with
  | ok x =>
    obtain ⟨body, n, esc⟩ := x
    refine ⟨by simp, ?_⟩
    intro rest hh
    simp only [R.ok.injEq] at hh
    rw [← hh]
    exact Term_drop r n h (h2 body n esc hs)
  | error e =>
    cases e with
    | oob => exact absurd hs h1
    | ok _ _ => exact ⟨by simp, fun _ hh => by cases hh⟩
    | null _ => exact ⟨by simp, fun _ hh => by cases hh⟩
    | typeErr => exact ⟨by simp, fun _ hh => by cases hh⟩
    | syntaxErr => exact ⟨by simp, fun _ hh => by cases hh⟩

theorem lit_term (expect s : List UInt8) (h : Term s) (hz : (0 : UInt8) ∉ expect) (hne : expect ≠ []) :
    lit expect s ≠ .oob ∧ ∀ rest, lit expect s = .ok rest → Term rest := by
  unfold lit
  split
  · exact ⟨by simp, fun _ hh => by cases hh⟩
  · rename_i hlen
    split
    · rename_i heq
      refine ⟨by simp, ?_⟩
      intro rest hh
      simp only [R.ok.injEq] at hh
      rw [← hh]
      have heq' : s.take expect.length = expect := by simpa using heq
      have hlt : expect.length < s.length := by
        rcases Nat.lt_or_ge expect.length s.length with h1 | h1
        · exact h1
        · exfalso
          have hse : s = expect := by
            rw [← heq', List.take_of_length_le (by omega)]
          rw [hse] at h
          unfold Term at h
          have := List.mem_of_getLast? h
          exact hz this
      exact Term_drop s _ h hlt
    · exact ⟨by simp, fun _ hh => by cases hh⟩

/-- **The sentinel works**: on a NUL-terminated buffer the decoder never reads past the terminator
(`oob` is unreachable) and every sub-scanner hands a NUL-terminated rest to the next one. -/
theorem value_term (range : Bool) (fuel : Nat) :
    (∀ d s, Term s → value range fuel d s ≠ .oob ∧ ∀ rest, value range fuel d s = .ok rest → Term rest) ∧
    (∀ d s, Term s → elements range fuel d s ≠ .oob ∧ ∀ rest, elements range fuel d s = .ok rest → Term rest) ∧
    (∀ d s, Term s → members range fuel d s ≠ .oob ∧ ∀ rest, members range fuel d s = .ok rest → Term rest) := by
  induction fuel with
  | zero =>
    refine ⟨?_, ?_, ?_⟩ <;> intro d s _
    · simp [value]
    · simp [elements]
    · simp [members]
  | succ fuel ih =>
    obtain ⟨ihv, ihe, ihm⟩ := ih
    refine ⟨?_, ?_, ?_⟩
    · intro d s hs
      have hsk := skipWs_term s hs
      unfold value
      cases hsw : skipWs s with
      | nil => rw [hsw] at hsk; exact absurd rfl (Term_ne_nil _ hsk)
      | cons b r =>
        rw [hsw] at hsk
        simp only
        by_cases h123 : (b == 123) = true
        · simp only [h123, if_true]
          have hb : b ≠ 0 := by intro hb; subst hb; simp at h123
          have htr := Term_tail b r hsk hb
          by_cases hd : d + 1 > maxDepth
          · simp [hd]
          · simp only [hd, if_false]
            have hsk2 := skipWs_term r htr
            cases hsw2 : skipWs r with
            | nil => rw [hsw2] at hsk2; exact absurd rfl (Term_ne_nil _ hsk2)
            | cons c r2 =>
              rw [hsw2] at hsk2
              simp only
              by_cases hc : (c == 125) = true
              · simp only [hc, if_true]
                have hc0 : c ≠ 0 := by intro h; subst h; simp at hc
                exact ⟨by simp, fun rest hh => by simp only [R.ok.injEq] at hh; rw [← hh]; exact Term_tail c r2 hsk2 hc0⟩
              · simp only [hc, if_false, Bool.false_eq_true]
                exact ihm (d + 1) (c :: r2) hsk2
        · simp only [h123, if_false, Bool.false_eq_true]
          by_cases h91 : (b == 91) = true
          · simp only [h91, if_true]
            have hb : b ≠ 0 := by intro hb; subst hb; simp at h91
            have htr := Term_tail b r hsk hb
            by_cases hd : d + 1 > maxDepth
            · simp [hd]
            · simp only [hd, if_false]
              have hsk2 := skipWs_term r htr
              cases hsw2 : skipWs r with
              | nil => rw [hsw2] at hsk2; exact absurd rfl (Term_ne_nil _ hsk2)
              | cons c r2 =>
                rw [hsw2] at hsk2
                simp only
                by_cases hc : (c == 93) = true
                · simp only [hc, if_true]
                  have hc0 : c ≠ 0 := by intro h; subst h; simp at hc
                  exact ⟨by simp, fun rest hh => by simp only [R.ok.injEq] at hh; rw [← hh]; exact Term_tail c r2 hsk2 hc0⟩
                · simp only [hc, if_false, Bool.false_eq_true]
                  exact ihe (d + 1) (c :: r2) hsk2
          · simp only [h91, if_false, Bool.false_eq_true]
            by_cases hnum : (b == 45 || (decide (48 ≤ b.toNat) && decide (b.toNat ≤ 57))) = true
            · simp only [hnum, if_true]
              have hb : b ≠ 0 := by intro hb; subst hb; simp at hnum
              exact number_term range b r (Term_tail b r hsk hb)
            · simp only [hnum, if_false, Bool.false_eq_true]
              by_cases h34 : (b == 34) = true
              · simp only [h34, if_true]
                have hb : b ≠ 0 := by intro hb; subst hb; simp at h34
                exact stringTail_term r (Term_tail b r hsk hb)
              · simp only [h34, if_false, Bool.false_eq_true]
                by_cases h116 : (b == 116) = true
                · simp only [h116, if_true]
                  exact lit_term _ _ hsk (by decide) (by simp)
                · simp only [h116, if_false, Bool.false_eq_true]
                  by_cases h102 : (b == 102) = true
                  · simp only [h102, if_true]
                    exact lit_term _ _ hsk (by decide) (by simp)
                  · simp only [h102, if_false, Bool.false_eq_true]
                    by_cases h110 : (b == 110) = true
                    · simp only [h110, if_true]
                      exact lit_term _ _ hsk (by decide) (by simp)
                    · simp [h110]
    · intro d s hs
      unfold elements
      obtain ⟨hv1, hv2⟩ := ihv d s hs
      cases hv : value range fuel d s with
      | err => simp
      | oob => exact absurd hv hv1
      | ok rest =>
        simp only
        have htr := hv2 rest hv
        have hsk := skipWs_term rest htr
        cases hsw : skipWs rest with
        | nil => rw [hsw] at hsk; exact absurd rfl (Term_ne_nil _ hsk)
        | cons c r =>
          rw [hsw] at hsk
          simp only
          by_cases h93 : (c == 93) = true
          · simp only [h93, if_true]
            have hc0 : c ≠ 0 := by intro h; subst h; simp at h93
            exact ⟨by simp, fun rest' hh => by simp only [R.ok.injEq] at hh; rw [← hh]; exact Term_tail c r hsk hc0⟩
          · simp only [h93, if_false, Bool.false_eq_true]
            by_cases h44 : (c == 44) = true
            · simp only [h44, if_true]
              have hc0 : c ≠ 0 := by intro h; subst h; simp at h44
              exact ihe d r (Term_tail c r hsk hc0)
            · simp [h44]
    · intro d s hs
      have hsk := skipWs_term s hs
      unfold members
      cases hsw : skipWs s with
      | nil => rw [hsw] at hsk; exact absurd rfl (Term_ne_nil _ hsk)
      | cons q r =>
        rw [hsw] at hsk
        simp only
        by_cases hq : (q != 34) = true
        · simp [hq]
        · simp only [hq, if_false, Bool.false_eq_true]
          have hq34 : q = 34 := by simpa using hq
          have hq0 : q ≠ 0 := by rw [hq34]; decide
          obtain ⟨hs1, hs2⟩ := stringTail_term r (Term_tail q r hsk hq0)
          cases hst : stringTail r with
          | err => simp
          | oob => exact absurd hst hs1
          | ok afterKey =>
            simp only
            have hak := skipWs_term afterKey (hs2 afterKey hst)
            cases hsw2 : skipWs afterKey with
            | nil => rw [hsw2] at hak; exact absurd rfl (Term_ne_nil _ hak)
            | cons c r2 =>
              rw [hsw2] at hak
              simp only
              by_cases hc : (c != 58) = true
              · simp [hc]
              · simp only [hc, if_false, Bool.false_eq_true]
                have hc58 : c = 58 := by simpa using hc
                have hc0 : c ≠ 0 := by rw [hc58]; decide
                obtain ⟨hv1, hv2⟩ := ihv d r2 (Term_tail c r2 hak hc0)
                cases hv : value range fuel d r2 with
                | err => simp
                | oob => exact absurd hv hv1
                | ok rest =>
                  simp only
                  have hsk3 := skipWs_term rest (hv2 rest hv)
                  cases hsw3 : skipWs rest with
                  | nil => rw [hsw3] at hsk3; exact absurd rfl (Term_ne_nil _ hsk3)
                  | cons e r3 =>
                    rw [hsw3] at hsk3
                    simp only
                    by_cases h125 : (e == 125) = true
                    · simp only [h125, if_true]
                      have he0 : e ≠ 0 := by intro h; subst h; simp at h125
                      exact ⟨by simp, fun rest' hh => by simp only [R.ok.injEq] at hh; rw [← hh]; exact Term_tail e r3 hsk3 he0⟩
                    · simp only [h125, if_false, Bool.false_eq_true]
                      by_cases h44 : (e == 44) = true
                      · simp only [h44, if_true]
                        have he0 : e ≠ 0 := by intro h; subst h; simp at h44
                        exact ihm d r3 (Term_tail e r3 hsk3 he0)
                      · simp [h44]

end GoJson.Model.BufDec
