import GoJson.Model.Frames
namespace GoJson.Model.Frames

theorem foldl_max_ge (ops : List Op) (m : Nat) :
    m ≤ ops.foldl (fun m o => max m (o.maxIdx / 8)) m := by
  induction ops generalizing m with
  | nil => exact Nat.le_refl _
  | cons o r ih => exact Nat.le_trans (Nat.le_max_left _ _) (ih _)

theorem foldl_max_mem (ops : List Op) (m : Nat) (o : Op) (h : o ∈ ops) :
    o.maxIdx / 8 ≤ ops.foldl (fun m o => max m (o.maxIdx / 8)) m := by
  induction ops generalizing m with
  | nil => cases h
  | cons a r ih =>
    simp only [List.mem_cons] at h
    rcases h with rfl | h
    · exact Nat.le_trans (Nat.le_max_right _ _) (foldl_max_ge r _)
    · exact ih _ h

theorem slot_le_maxIdx (o : Op) (s : Nat) (h : s ∈ o.slots) : s ≤ o.maxIdx / 8 := by
  have h1 : o.idx ≤ o.maxIdx := by unfold Op.maxIdx; omega
  have h2 : o.elemIdx ≤ o.maxIdx := by unfold Op.maxIdx; omega
  have h3 : o.length ≤ o.maxIdx := by unfold Op.maxIdx; omega
  have d1 := Nat.div_le_div_right (c := 8) h1
  have d2 := Nat.div_le_div_right (c := 8) h2
  have d3 := Nat.div_le_div_right (c := 8) h3
  unfold Op.slots at h
  split at h <;> simp only [List.mem_cons, List.mem_nil_iff, or_false] at h <;> omega

theorem fits_iff (ops : List Op) (len : Nat) :
    fits ops len = true ↔ ∀ o ∈ ops, ∀ s ∈ o.slots, s < len := by
  simp [fits, List.all_eq_true]

theorem fits_mono (ops : List Op) (a b : Nat) (h : a ≤ b) (hf : fits ops a = true) : fits ops b = true := by
  rw [fits_iff] at *
  intro o ho s hs
  exact Nat.lt_of_lt_of_le (hf o ho s hs) h

theorem Stacked_mono {L L' : Nat} (h : L ≤ L') : ∀ st, Stacked L st → Stacked L' st
  | [], _ => trivial
  | _ :: rest, ⟨h1, h2, h3⟩ => ⟨Nat.le_trans h1 h, h2, Stacked_mono h rest h3⟩

theorem run_append (s : St) (xs ys : List Ev) :
    run s (xs ++ ys) = (run s xs).bind (fun s' => run s' ys) := by
  induction xs generalizing s with
  | nil => rfl
  | cons e es ih =>
    simp only [List.cons_append, run]
    cases step s e with
    | none => rfl
    | some s' => exact ih s'

theorem Safe_append (s s' : St) (xs ys : List Ev) (h1 : Safe s xs) (hr : run s xs = some s')
    (h2 : Safe s' ys) : Safe s (xs ++ ys) := by
  induction xs generalizing s with
  | nil =>
    simp only [run, Option.some.injEq] at hr
    subst hr
    exact h2
  | cons e es ih =>
    simp only [List.cons_append, Safe] at *
    refine ⟨h1.1, ?_⟩
    simp only [run] at hr
    cases hs : step s e with
    | none => rw [hs] at hr; cases hr
    | some s1 =>
      rw [hs] at hr
      have h12 := h1.2
      rw [hs] at h12
      exact ih s1 h12 hr

end GoJson.Model.Frames
