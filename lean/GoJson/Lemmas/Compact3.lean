import GoJson.Lemmas.Compact2
namespace GoJson.Model.Compact
open GoJson GoJson.Spec

/-- next byte does not belong to the float alphabet (so the number token ends here) -/
def NextOk (rest : List UInt8) : Prop := ∃ c t, rest = c :: t ∧ floatTbl c = false

theorem cbody_complete (items : List Item) (rest : List UInt8) (hw : ∀ i ∈ items, i.wf true = true) :
    cbody false (renderAll items ++ 34 :: rest) = some (renderAll items ++ [34], rest) := by
  induction items with
  | nil =>
    simp only [renderAll, List.flatMap_nil, List.nil_append]
    unfold cbody; simp
  | cons it items ih =>
    have ih' := ih (fun i hi => hw i (by simp [hi]))
    have hit := hw it (by simp)
    rw [renderAll_cons]
    cases it with
    | raw b =>
      simp only [Item.wf, Bool.not_true, Bool.false_or, Bool.and_eq_true, bne_iff_ne, ne_eq, decide_eq_true_eq] at hit
      obtain ⟨⟨⟨h1, h2⟩, h3⟩, h4⟩ := hit
      simp only [Item.render, List.cons_append, List.nil_append]
      unfold cbody
      have : ¬ b.toNat < 0x20 := by omega
      simp [h1, h2, this, ih']
    | simple e =>
      have he : isSimpleEsc e = true := by rw [isSimpleEsc_eq]; simpa [Item.wf] using hit
      simp only [Item.render, List.cons_append, List.nil_append]
      unfold cbody
      simp [he, ih']
    | uni h1 h2 h3 h4 =>
      have hh : isHex h1 = true ∧ isHex h2 = true ∧ isHex h3 = true ∧ isHex h4 = true := by
        simp only [isHex_eq]
        simp [Item.wf] at hit
        exact ⟨hit.1.1.1, hit.1.1.2, hit.1.2, hit.2⟩
      simp only [Item.render, List.cons_append, List.nil_append]
      unfold cbody
      have hs : isSimpleEsc 117 = false := by decide
      simp [hs, hh.1, hh.2.1, hh.2.2.1, hh.2.2.2, ih']

theorem cstring_complete (items : List Item) (rest : List UInt8) (hw : ∀ i ∈ items, i.wf true = true) :
    cstring false (34 :: (renderAll items ++ 34 :: rest)) = .ok (34 :: renderAll items ++ [34]) rest := by
  unfold cstring
  simp [cbody_complete items rest hw]

theorem clit_complete (e rest : List UInt8) : clit e (e ++ rest) = .ok e rest := by
  unfold clit; simp

theorem cnumber_complete (t rest : List UInt8) (b : UInt8) (r : List UInt8) (ht : t = b :: r)
    (hn : isNumber t = true) (hend : NextOk rest) (hall : ∀ x ∈ r, BufDec.floatTbl x = true) :
    cnumber b (r ++ rest) = .ok t rest := by
  obtain ⟨c, tl, rfl, hc⟩ := hend
  unfold cnumber
  rw [munch_eq, BufDec.munch_all r c tl hall (by rw [← floatTbl_eq]; exact hc)]
  simp [← ht, hn]

theorem skipWs_ws_append (w s : List UInt8) (hw : AllWs w) : skipWs (w ++ s) = skipWs s := by
  rw [skipWs_eq]; exact BufDec.skipWs_ws_append w s hw
theorem skipWs_nonws (b : UInt8) (t : List UInt8) (hb : isWsByte b = false) : skipWs (b :: t) = b :: t := by
  rw [skipWs_eq]; exact BufDec.skipWs_nonws b t hb
theorem skipWs_idem (s : List UInt8) : skipWs (skipWs s) = skipWs s := by
  rw [skipWs_eq]; exact BufDec.skipWs_idem s

theorem cvalue_skipWs (lay : Layout) (fuel depth : Nat) (s : List UInt8) :
    cvalue false lay fuel depth (skipWs s) = cvalue false lay fuel depth s := by
  cases fuel with
  | zero => unfold cvalue; rfl
  | succ f => unfold cvalue; rw [skipWs_idem]

theorem cvalue_ws (lay : Layout) (fuel depth : Nat) (w s : List UInt8) (hw : AllWs w) :
    cvalue false lay fuel depth (w ++ s) = cvalue false lay fuel depth s := by
  rw [← cvalue_skipWs, skipWs_ws_append w s hw, cvalue_skipWs]

theorem celements_skipWs (lay : Layout) (fuel depth : Nat) (s : List UInt8) :
    celements false lay fuel depth (skipWs s) = celements false lay fuel depth s := by
  cases fuel with
  | zero => unfold celements; rfl
  | succ f => unfold celements; rw [cvalue_skipWs]

theorem cmembers_skipWs (lay : Layout) (fuel depth : Nat) (s : List UInt8) :
    cmembers false lay fuel depth (skipWs s) = cmembers false lay fuel depth s := by
  cases fuel with
  | zero => unfold cmembers; rfl
  | succ f => unfold cmembers; rw [skipWs_idem]

theorem ws_not_float (b : UInt8) (h : isWsByte b = true) : floatTbl b = false := by
  rw [floatTbl_eq]; exact BufDec.validEnd_not_float b (BufDec.ws_validEnd b h)

theorem nextOk_ws_then (w : List UInt8) (c : UInt8) (t : List UInt8) (hw : AllWs w) (hc : floatTbl c = false) :
    NextOk (w ++ c :: t) := by
  cases w with
  | nil => exact ⟨c, t, rfl, hc⟩
  | cons b w' => exact ⟨b, w' ++ c :: t, rfl, ws_not_float b (hw b (by simp))⟩

/-- first byte of a value -/
theorem cval_head (lay : Layout) (n : Nat) (v o : List UInt8) (h : CVal lay n v o) :
    ∃ b t, v = b :: t ∧ isWsByte b = false ∧ b ≠ 93 ∧ b ≠ 125 := by
  cases h with
  | null => exact ⟨110, _, rfl, by decide, by decide, by decide⟩
  | true_ => exact ⟨116, _, rfl, by decide, by decide, by decide⟩
  | false_ => exact ⟨102, _, rfl, by decide, by decide, by decide⟩
  | num _ _ hn => exact BufDec.value_head Relax.none false 0 v (Value.num 0 v hn (by intro h; cases h))
  | str _ items _ => exact ⟨34, _, rfl, by decide, by decide, by decide⟩
  | arrEmpty _ w _ _ => exact ⟨91, _, rfl, by decide, by decide, by decide⟩
  | arr _ body _ _ _ => exact ⟨91, _, rfl, by decide, by decide, by decide⟩
  | objEmpty _ w _ _ => exact ⟨123, _, rfl, by decide, by decide, by decide⟩
  | obj _ body _ _ _ => exact ⟨123, _, rfl, by decide, by decide, by decide⟩

end GoJson.Model.Compact
