import GoJson.Lemmas.Compact4
namespace GoJson.Model.Compact
open GoJson GoJson.Spec

def ForgV (n : Nat) : Prop := ∀ lay depth v o, v.length = n → CVal lay depth v o →
  Value Relax.none false (maxDepth - depth) v
def ForgE (n : Nat) : Prop := ∀ lay depth body o, body.length = n → 1 ≤ depth → depth ≤ maxDepth → CElems lay depth body o →
  Elements Relax.none false (maxDepth - depth) body
def ForgM (n : Nat) : Prop := ∀ lay depth body o, body.length = n → 1 ≤ depth → depth ≤ maxDepth → CMems lay depth body o →
  Members Relax.none false (maxDepth - depth) body

theorem forg_all (n : Nat) : ForgV n ∧ ForgE n ∧ ForgM n := by
  induction n using Nat.strongRecOn with
  | _ n ih =>
    have hV : ForgV n := by
      intro lay depth v o hlen h
      cases h with
      | null => exact Value.null _
      | true_ => exact Value.true_ _
      | false_ => exact Value.false_ _
      | num _ _ hn => exact Value.num _ v hn (by intro h; cases h)
      | str _ items hw => exact Value.str _ items (by intro i hi; simpa [Relax.none] using hw i hi)
      | arrEmpty _ w hd hw =>
        have : maxDepth - depth = (maxDepth - (depth + 1)) + 1 := by omega
        rw [this]; exact Value.arrEmpty _ w hw
      | arr _ body o' hd hel =>
        have : maxDepth - depth = (maxDepth - (depth + 1)) + 1 := by omega
        rw [this]
        have hlb : body.length < n := by rw [← hlen]; simp; omega
        exact Value.arr _ body ((ih body.length hlb).2.1 lay (depth + 1) body o' rfl (by omega) (by omega) hel)
      | objEmpty _ w hd hw =>
        have : maxDepth - depth = (maxDepth - (depth + 1)) + 1 := by omega
        rw [this]; exact Value.objEmpty _ w hw
      | obj _ body o' hd hmem =>
        have : maxDepth - depth = (maxDepth - (depth + 1)) + 1 := by omega
        rw [this]
        have hlb : body.length < n := by rw [← hlen]; simp; omega
        exact Value.obj _ body ((ih body.length hlb).2.2 lay (depth + 1) body o' rfl (by omega) (by omega) hmem)
    have hVle : ∀ m, m ≤ n → ForgV m := by
      intro m hm
      by_cases h : m = n
      · subst h; exact hV
      · exact (ih m (by omega)).1
    refine ⟨hV, ?_, ?_⟩
    · intro lay depth body o hlen hd1 hd2 h
      cases h with
      | one _ w1 v w2 o1 h1 hv h2 =>
        have hvl : v.length ≤ n := by rw [← hlen]; simp; omega
        exact Elements.one _ w1 v w2 h1 (hVle v.length hvl lay depth v o1 rfl hv) h2
      | more _ w1 v w2 rest o1 o2 h1 hv h2 hr =>
        have hvl : v.length ≤ n := by rw [← hlen]; simp; omega
        have hrl : rest.length < n := by rw [← hlen]; simp; omega
        exact Elements.more _ w1 v w2 rest h1 (hVle v.length hvl lay depth v o1 rfl hv) h2
          ((ih rest.length hrl).2.1 lay depth rest o2 rfl hd1 hd2 hr)
    · intro lay depth body o hlen hd1 hd2 h
      cases h with
      | one _ w1 key w2 w3 v w4 o1 h1 hk h2 h3 hv h4 =>
        have hvl : v.length ≤ n := by rw [← hlen]; simp; omega
        exact Members.one _ w1 key w2 w3 v w4 h1 (by intro i hi; simpa [Relax.none] using hk i hi) h2 h3
          (hVle v.length hvl lay depth v o1 rfl hv) h4
      | more _ w1 key w2 w3 v w4 rest o1 o2 h1 hk h2 h3 hv h4 hr =>
        have hvl : v.length ≤ n := by rw [← hlen]; simp; omega
        have hrl : rest.length < n := by rw [← hlen]; simp; omega
        exact Members.more _ w1 key w2 w3 v w4 rest h1 (by intro i hi; simpa [Relax.none] using hk i hi) h2 h3
          (hVle v.length hvl lay depth v o1 rfl hv) h4 ((ih rest.length hrl).2.2 lay depth rest o2 rfl hd1 hd2 hr)

/-- what a successful Compact/Indent did -/
theorem run_sound (lay : Layout) (b out : List UInt8) (h : run false lay b = some out) :
    ∃ w1 v w2 o, b = w1 ++ v ++ w2 ∧ AllWs w1 ∧ AllWs w2 ∧ CVal lay 0 v o ∧
      out = o ++ (if lay.isSome then trailingWs b else []) := by
  unfold run at h
  split at h
  · simp at h
  · cases hv : cvalue false lay (2 * b.length + 4) 0 (b ++ [0]) with
    | err => simp [hv] at h
    | oob => simp [hv] at h
    | ok o rest =>
      rw [hv] at h
      simp only at h
      split at h
      · rename_i hend
        simp only [Option.some.injEq] at h
        obtain ⟨w, v, hs, hw, hval⟩ := (sound_all lay _).1 0 (b ++ [0]) o rest hv
        obtain ⟨w2, hr, hw2, _⟩ := skipWs_split rest
        have hend' : skipWs rest = [0] := by simpa using hend
        rw [hend'] at hr
        refine ⟨w, v, w2, o, ?_, hw, hw2, hval, h.symm⟩
        rw [hr] at hs
        have : b ++ [0] = (w ++ v ++ w2) ++ [0] := by rw [hs]; simp
        exact List.append_cancel_right this
      · simp at h

theorem run_complete (lay : Layout) (w1 v w2 o : List UInt8) (hw1 : AllWs w1) (hw2 : AllWs w2)
    (hval : CVal lay 0 v o) :
    run false lay (w1 ++ v ++ w2) = some (o ++ (if lay.isSome then trailingWs (w1 ++ v ++ w2) else [])) := by
  unfold run
  obtain ⟨b0, t0, hb0, _⟩ := cval_head _ _ _ _ hval
  have hne : (w1 ++ v ++ w2).isEmpty = false := by rw [hb0]; cases w1 <;> simp
  simp only [hne, Bool.false_eq_true, ↓reduceIte]
  have hv : cvalue false lay (2 * (w1 ++ v ++ w2).length + 4) 0 (w1 ++ v ++ w2 ++ [0]) = .ok o (w2 ++ [0]) := by
    have e : w1 ++ v ++ w2 ++ [0] = w1 ++ (v ++ (w2 ++ [0])) := by simp
    rw [e, cvalue_ws _ _ _ w1 _ hw1]
    refine (compl_all lay v.length).1 0 v o rfl hval _ (w2 ++ [0]) ?_ (nextOk_ws_then w2 0 [] hw2 not_float_lits.2.2.2)
    simp only [List.length_append, List.length_cons, List.length_nil]
    omega
  rw [hv]
  simp only
  rw [skipWs_ws_append w2 _ hw2, skipWs_nonws 0 _ (by decide)]
  simp

/-- Compact and Indent succeed only on RFC 8259 texts (strict strings, strict numbers, depth ≤ 10000) -/
theorem run_valid (lay : Layout) (b out : List UInt8) (h : run false lay b = some out) :
    ValidText Relax.none false maxDepth b := by
  obtain ⟨w1, v, w2, o, hb, hw1, hw2, hval, _⟩ := run_sound lay b out h
  exact ⟨w1, v, w2, hb, hw1, hw2, by simpa using (forg_all v.length).1 lay 0 v o rfl hval⟩

end GoJson.Model.Compact
