import GoJson.Model.Flow
namespace GoJson.Model.Flow

theorem update_same (c : Ctx) (f : Nat) (v : Val) : update c f v f = v := by simp [update]

theorem update_other (c : Ctx) (f g : Nat) (v : Val) (h : g ≠ f) : update c f v g = c g := by
  simp [update, h]

/-- two contexts that agree on the fields written so far give the same reads to a program that
reads only what was written -/
theorem exec_agree (wval : Nat → Nat → List Val → Val) (p : List Instr) :
    ∀ (written : List Nat) (c1 c2 : Ctx) (i : Nat) (rs : List Val),
      (∀ f ∈ written, c1 f = c2 f) → check written p = true →
      exec wval c1 p i rs = exec wval c2 p i rs := by
  induction p with
  | nil => intro _ _ _ _ _ _ _; rfl
  | cons ins p ih =>
    intro written c1 c2 i rs hag hck
    cases ins with
    | write f =>
      simp only [check] at hck
      simp only [exec]
      apply ih (f :: written) _ _ _ _ _ hck
      intro g hg
      simp only [List.mem_cons] at hg
      by_cases hgf : g = f
      · subst hgf; rw [update_same, update_same]
      · rw [update_other _ _ _ _ hgf, update_other _ _ _ _ hgf]
        rcases hg with h | h
        · exact absurd h hgf
        · exact hag g h
    | read f =>
      simp only [check, Bool.and_eq_true] at hck
      simp only [exec]
      have hf : f ∈ written := by
        have := hck.1
        simpa using this
      rw [hag f hf]
      exact ih written _ _ _ _ hag hck.2

end GoJson.Model.Flow
