import GoJson.Lemmas.BufCompl1
namespace GoJson.Model.BufDec
open GoJson GoJson.Spec GoJson.Model.StrDec

def ComplV (range : Bool) (n : Nat) : Prop :=
  ∀ d v, v.length = n → Value rxCurrent range d v → ∀ depth fuel rest, depth + d ≤ maxDepth →
    2 * (v ++ rest).length + 1 ≤ fuel → EndOk rest → value range fuel depth (v ++ rest) = .ok rest
def ComplE (range : Bool) (n : Nat) : Prop :=
  ∀ d body, body.length = n → Elements rxCurrent range d body → ∀ depth fuel rest, depth + d ≤ maxDepth →
    2 * (body ++ 93 :: rest).length + 2 ≤ fuel → elements range fuel depth (body ++ 93 :: rest) = .ok rest
def ComplM (range : Bool) (n : Nat) : Prop :=
  ∀ d body, body.length = n → Members rxCurrent range d body → ∀ depth fuel rest, depth + d ≤ maxDepth →
    2 * (body ++ 125 :: rest).length + 2 ≤ fuel → members range fuel depth (body ++ 125 :: rest) = .ok rest

theorem lit_complete (e rest : List UInt8) : lit e (e ++ rest) = .ok rest := by
  unfold lit
  simp

theorem stringTail_complete (items : List Item) (rest : List UInt8) (hw : ∀ i ∈ items, i.wf true = true) :
    stringTail (renderAll items ++ 34 :: rest) = .ok rest := by
  unfold stringTail
  rw [scanBody_render items rest hw]
  simp

theorem number_complete (range : Bool) (t rest : List UInt8) (b : UInt8) (r : List UInt8) (ht : t = b :: r)
    (hn : isNumber t = true) (hr : range = true → inF64Range t = true) (hend : EndOk rest)
    (hall : ∀ x ∈ r, floatTbl x = true) : number range b (r ++ rest) = .ok rest := by
  obtain ⟨c, tl, rfl, hc⟩ := hend
  unfold number
  have hm := munch_all r c tl hall (validEnd_not_float c hc)
  simp only [hm, hc, Bool.not_true, Bool.false_eq_true, ↓reduceIte, ← ht, hn]
  cases range with
  | false => simp
  | true => simp [hr rfl]


theorem complV_step (range : Bool) (n : Nat) (hE : ∀ m, m < n → ComplE range m) (hM : ∀ m, m < n → ComplM range m) :
    ComplV range n := by
  intro d v hlen hval depth fuel rest hdep hfuel hend
  obtain ⟨f, rfl⟩ : ∃ f, fuel = f + 1 := ⟨fuel - 1, by omega⟩
  unfold value
  cases hval with
  | null =>
    simp only [List.cons_append, List.nil_append]
    rw [skipWs_nonws 110 _ (by decide)]
    simp only [show ((110 : UInt8) == 123) = false by decide, show ((110 : UInt8) == 91) = false by decide,
      show ((110 : UInt8) == 45 || (decide (48 ≤ (110 : UInt8).toNat) && decide ((110 : UInt8).toNat ≤ 57))) = false by decide,
      show ((110 : UInt8) == 34) = false by decide, show ((110 : UInt8) == 116) = false by decide,
      show ((110 : UInt8) == 102) = false by decide, Bool.false_eq_true, ↓reduceIte, beq_self_eq_true]
    exact lit_complete [110, 117, 108, 108] rest
  | true_ =>
    simp only [List.cons_append, List.nil_append]
    rw [skipWs_nonws 116 _ (by decide)]
    simp only [show ((116 : UInt8) == 123) = false by decide, show ((116 : UInt8) == 91) = false by decide,
      show ((116 : UInt8) == 45 || (decide (48 ≤ (116 : UInt8).toNat) && decide ((116 : UInt8).toNat ≤ 57))) = false by decide,
      show ((116 : UInt8) == 34) = false by decide, Bool.false_eq_true, ↓reduceIte, beq_self_eq_true]
    exact lit_complete [116, 114, 117, 101] rest
  | false_ =>
    simp only [List.cons_append, List.nil_append]
    rw [skipWs_nonws 102 _ (by decide)]
    simp only [show ((102 : UInt8) == 123) = false by decide, show ((102 : UInt8) == 91) = false by decide,
      show ((102 : UInt8) == 45 || (decide (48 ≤ (102 : UInt8).toNat) && decide ((102 : UInt8).toNat ≤ 57))) = false by decide,
      show ((102 : UInt8) == 34) = false by decide, show ((102 : UInt8) == 116) = false by decide,
      Bool.false_eq_true, ↓reduceIte, beq_self_eq_true]
    exact lit_complete [102, 97, 108, 115, 101] rest
  | num _ _ hn hr =>
    obtain ⟨b, r, ht, hb, hall⟩ := isNumber_alpha v hn
    subst ht
    have hbws : isWsByte b = false ∧ (b == 123) = false ∧ (b == 91) = false ∧
        (b == 45 || (decide (48 ≤ b.toNat) && decide (b.toNat ≤ 57))) = true := by
      rcases hb with rfl | hb
      · decide
      · simp only [isDig, Bool.and_eq_true, decide_eq_true_eq] at hb
        refine ⟨?_, ?_, ?_, ?_⟩
        · simp only [isWsByte, u8beq, UInt8.toNat_ofNat, Nat.reducePow, Nat.reduceMod, Bool.or_eq_false_iff, beq_eq_false_iff_ne, ne_eq]; omega
        · simp only [u8beq, UInt8.toNat_ofNat, Nat.reducePow, Nat.reduceMod, beq_eq_false_iff_ne, ne_eq]; omega
        · simp only [u8beq, UInt8.toNat_ofNat, Nat.reducePow, Nat.reduceMod, beq_eq_false_iff_ne, ne_eq]; omega
        · simp [hb.1, hb.2]
    simp only [List.cons_append]
    rw [skipWs_nonws b _ hbws.1]
    simp only [hbws.2.1, hbws.2.2.1, hbws.2.2.2, Bool.false_eq_true, ↓reduceIte]
    exact number_complete range (b :: r) rest b r rfl hn hr hend hall
  | str _ items hw =>
    simp only [List.cons_append, List.append_assoc, List.nil_append]
    rw [skipWs_nonws 34 _ (by decide)]
    simp only [show ((34 : UInt8) == 123) = false by decide, show ((34 : UInt8) == 91) = false by decide,
      show ((34 : UInt8) == 45 || (decide (48 ≤ (34 : UInt8).toNat) && decide ((34 : UInt8).toNat ≤ 57))) = false by decide,
      Bool.false_eq_true, ↓reduceIte, beq_self_eq_true]
    exact stringTail_complete items rest (by intro i hi; simpa [rxCurrent] using hw i hi)
  | arrEmpty d' w hw =>
    simp only [List.cons_append, List.append_assoc, List.nil_append]
    rw [skipWs_nonws 91 _ (by decide)]
    simp only [show ((91 : UInt8) == 123) = false by decide, Bool.false_eq_true, ↓reduceIte, beq_self_eq_true]
    have : ¬ (depth + 1 > maxDepth) := by omega
    simp only [this, ↓reduceIte]
    rw [skipWs_ws_append w _ hw, skipWs_nonws 93 _ (by decide)]
    simp
  | arr d' body hel =>
    simp only [List.cons_append, List.append_assoc, List.nil_append]
    rw [skipWs_nonws 91 _ (by decide)]
    simp only [show ((91 : UInt8) == 123) = false by decide, Bool.false_eq_true, ↓reduceIte, beq_self_eq_true]
    have : ¬ (depth + 1 > maxDepth) := by omega
    simp only [this, ↓reduceIte]
    -- the body starts (after white space) with the first byte of a value, which is not ']'
    have hhead : ∃ c r2, skipWs (body ++ 93 :: rest) = c :: r2 ∧ c ≠ 93 := by
      cases hel with
      | one _ w1 v1 w2 h1 hv h2 =>
        obtain ⟨b, t, hb, hbws, hb93, _⟩ := value_head _ _ _ _ hv
        refine ⟨b, t ++ w2 ++ 93 :: rest, ?_, hb93⟩
        rw [hb]; simp only [List.append_assoc, List.cons_append]
        rw [skipWs_ws_append w1 _ h1, skipWs_nonws b _ hbws]
      | more _ w1 v1 w2 rest' h1 hv h2 hr =>
        obtain ⟨b, t, hb, hbws, hb93, _⟩ := value_head _ _ _ _ hv
        refine ⟨b, t ++ w2 ++ 44 :: rest' ++ 93 :: rest, ?_, hb93⟩
        rw [hb]; simp only [List.append_assoc, List.cons_append]
        rw [skipWs_ws_append w1 _ h1, skipWs_nonws b _ hbws]
    obtain ⟨c, r2, hsk, hc⟩ := hhead
    rw [hsk]
    simp only [show (c == 93) = false by simpa using hc, Bool.false_eq_true, ↓reduceIte]
    rw [← hsk, elements_skipWs]
    have hlb : body.length < n := by rw [← hlen]; simp; omega
    refine hE body.length hlb d' body rfl hel (depth + 1) f rest (by omega) ?_
    simp only [List.length_append, List.length_cons] at hfuel ⊢
    omega
  | objEmpty d' w hw =>
    simp only [List.cons_append, List.append_assoc, List.nil_append]
    rw [skipWs_nonws 123 _ (by decide)]
    simp only [Bool.false_eq_true, ↓reduceIte, beq_self_eq_true]
    have : ¬ (depth + 1 > maxDepth) := by omega
    simp only [this, ↓reduceIte]
    rw [skipWs_ws_append w _ hw, skipWs_nonws 125 _ (by decide)]
    simp
  | obj d' body hmem =>
    simp only [List.cons_append, List.append_assoc, List.nil_append]
    rw [skipWs_nonws 123 _ (by decide)]
    simp only [Bool.false_eq_true, ↓reduceIte, beq_self_eq_true]
    have : ¬ (depth + 1 > maxDepth) := by omega
    simp only [this, ↓reduceIte]
    have hhead : ∃ r2, skipWs (body ++ 125 :: rest) = 34 :: r2 := by
      cases hmem with
      | one _ w1 key w2 w3 v1 w4 h1 hk h2 h3 hv h4 =>
        refine ⟨renderAll key ++ [34] ++ w2 ++ 58 :: (w3 ++ v1 ++ w4) ++ 125 :: rest, ?_⟩
        simp only [List.append_assoc, List.cons_append]
        rw [skipWs_ws_append w1 _ h1, skipWs_nonws 34 _ (by decide)]
      | more _ w1 key w2 w3 v1 w4 rest' h1 hk h2 h3 hv h4 hr =>
        refine ⟨renderAll key ++ [34] ++ w2 ++ 58 :: (w3 ++ v1 ++ w4) ++ 44 :: rest' ++ 125 :: rest, ?_⟩
        simp only [List.append_assoc, List.cons_append]
        rw [skipWs_ws_append w1 _ h1, skipWs_nonws 34 _ (by decide)]
    obtain ⟨r2, hsk⟩ := hhead
    rw [hsk]
    simp only [show ((34 : UInt8) == 125) = false by decide, Bool.false_eq_true, ↓reduceIte]
    rw [← hsk, members_skipWs]
    have hlb : body.length < n := by rw [← hlen]; simp; omega
    refine hM body.length hlb d' body rfl hmem (depth + 1) f rest (by omega) ?_
    simp only [List.length_append, List.length_cons] at hfuel ⊢
    omega


theorem complE_step (range : Bool) (n : Nat) (hV : ∀ m, m ≤ n → ComplV range m) (hE : ∀ m, m < n → ComplE range m) :
    ComplE range n := by
  intro d body hlen hel depth fuel rest hdep hfuel
  obtain ⟨f, rfl⟩ : ∃ f, fuel = f + 1 := ⟨fuel - 1, by omega⟩
  unfold elements
  cases hel with
  | one _ w1 v w2 h1 hv h2 =>
    have hvl : v.length ≤ n := by rw [← hlen]; simp; omega
    have hval : value range f depth (w1 ++ v ++ w2 ++ 93 :: rest) = .ok (w2 ++ 93 :: rest) := by
      rw [List.append_assoc, List.append_assoc, value_ws _ _ _ w1 _ h1]
      refine hV v.length hvl d v rfl hv depth f (w2 ++ 93 :: rest) hdep ?_ (endOk_ws_then w2 93 rest h2 (by decide +kernel))
      simp only [List.length_append, List.length_cons] at hfuel ⊢
      omega
    rw [hval]
    simp only
    rw [skipWs_ws_append w2 _ h2, skipWs_nonws 93 _ (by decide)]
    simp
  | more _ w1 v w2 rest' h1 hv h2 hr =>
    have hvl : v.length ≤ n := by rw [← hlen]; simp; omega
    have hval : value range f depth (w1 ++ v ++ w2 ++ 44 :: rest' ++ 93 :: rest) =
        .ok (w2 ++ 44 :: (rest' ++ 93 :: rest)) := by
      have e : w1 ++ v ++ w2 ++ 44 :: rest' ++ 93 :: rest = w1 ++ (v ++ (w2 ++ 44 :: (rest' ++ 93 :: rest))) := by simp
      rw [e, value_ws _ _ _ w1 _ h1]
      refine hV v.length hvl d v rfl hv depth f _ hdep ?_ (endOk_ws_then w2 44 _ h2 (by decide +kernel))
      simp only [List.length_append, List.length_cons] at hfuel ⊢
      omega
    rw [hval]
    simp only
    rw [skipWs_ws_append w2 _ h2, skipWs_nonws 44 _ (by decide)]
    simp only [show ((44 : UInt8) == 93) = false by decide, Bool.false_eq_true, ↓reduceIte, beq_self_eq_true]
    have hrl : rest'.length < n := by rw [← hlen]; simp; omega
    refine hE rest'.length hrl d rest' rfl hr depth f rest hdep ?_
    simp only [List.length_append, List.length_cons] at hfuel ⊢
    omega

theorem complM_step (range : Bool) (n : Nat) (hV : ∀ m, m ≤ n → ComplV range m) (hM : ∀ m, m < n → ComplM range m) :
    ComplM range n := by
  intro d body hlen hmem depth fuel rest hdep hfuel
  obtain ⟨f, rfl⟩ : ∃ f, fuel = f + 1 := ⟨fuel - 1, by omega⟩
  unfold members
  cases hmem with
  | one _ w1 key w2 w3 v w4 h1 hk h2 h3 hv h4 =>
    have hkw : ∀ i ∈ key, i.wf true = true := by intro i hi; simpa [rxCurrent] using hk i hi
    have e : w1 ++ (34 :: renderAll key ++ [34]) ++ w2 ++ 58 :: (w3 ++ v ++ w4) ++ 125 :: rest =
        w1 ++ 34 :: (renderAll key ++ 34 :: (w2 ++ 58 :: (w3 ++ (v ++ (w4 ++ 125 :: rest))))) := by simp
    rw [e, skipWs_ws_append w1 _ h1, skipWs_nonws 34 _ (by decide)]
    simp only [bne_self_eq_false, Bool.false_eq_true, ↓reduceIte]
    rw [stringTail_complete key _ hkw]
    simp only
    rw [skipWs_ws_append w2 _ h2, skipWs_nonws 58 _ (by decide)]
    simp only [bne_self_eq_false, Bool.false_eq_true, ↓reduceIte]
    have hvl : v.length ≤ n := by rw [← hlen]; simp; omega
    have hval : value range f depth (w3 ++ (v ++ (w4 ++ 125 :: rest))) = .ok (w4 ++ 125 :: rest) := by
      rw [value_ws _ _ _ w3 _ h3]
      refine hV v.length hvl d v rfl hv depth f _ hdep ?_ (endOk_ws_then w4 125 rest h4 (by decide +kernel))
      simp only [List.length_append, List.length_cons] at hfuel ⊢
      omega
    rw [hval]
    simp only
    rw [skipWs_ws_append w4 _ h4, skipWs_nonws 125 _ (by decide)]
    simp
  | more _ w1 key w2 w3 v w4 rest' h1 hk h2 h3 hv h4 hr =>
    have hkw : ∀ i ∈ key, i.wf true = true := by intro i hi; simpa [rxCurrent] using hk i hi
    have e : w1 ++ (34 :: renderAll key ++ [34]) ++ w2 ++ 58 :: (w3 ++ v ++ w4) ++ 44 :: rest' ++ 125 :: rest =
        w1 ++ 34 :: (renderAll key ++ 34 :: (w2 ++ 58 :: (w3 ++ (v ++ (w4 ++ 44 :: (rest' ++ 125 :: rest)))))) := by simp
    rw [e, skipWs_ws_append w1 _ h1, skipWs_nonws 34 _ (by decide)]
    simp only [bne_self_eq_false, Bool.false_eq_true, ↓reduceIte]
    rw [stringTail_complete key _ hkw]
    simp only
    rw [skipWs_ws_append w2 _ h2, skipWs_nonws 58 _ (by decide)]
    simp only [bne_self_eq_false, Bool.false_eq_true, ↓reduceIte]
    have hvl : v.length ≤ n := by rw [← hlen]; simp; omega
    have hval : value range f depth (w3 ++ (v ++ (w4 ++ 44 :: (rest' ++ 125 :: rest)))) =
        .ok (w4 ++ 44 :: (rest' ++ 125 :: rest)) := by
      rw [value_ws _ _ _ w3 _ h3]
      refine hV v.length hvl d v rfl hv depth f _ hdep ?_ (endOk_ws_then w4 44 _ h4 (by decide +kernel))
      simp only [List.length_append, List.length_cons] at hfuel ⊢
      omega
    rw [hval]
    simp only
    rw [skipWs_ws_append w4 _ h4, skipWs_nonws 44 _ (by decide)]
    simp only [show ((44 : UInt8) == 125) = false by decide, Bool.false_eq_true, ↓reduceIte, beq_self_eq_true]
    have hrl : rest'.length < n := by rw [← hlen]; simp; omega
    refine hM rest'.length hrl d rest' rfl hr depth f rest hdep ?_
    simp only [List.length_append, List.length_cons] at hfuel ⊢
    omega

theorem compl_all (range : Bool) (n : Nat) : ComplV range n ∧ ComplE range n ∧ ComplM range n := by
  induction n using Nat.strongRecOn with
  | _ n ih =>
    have hV : ComplV range n := complV_step range n (fun m hm => (ih m hm).2.1) (fun m hm => (ih m hm).2.2)
    have hVle : ∀ m, m ≤ n → ComplV range m := by
      intro m hm
      by_cases h : m = n
      · subst h; exact hV
      · exact (ih m (by omega)).1
    exact ⟨hV, complE_step range n hVle (fun m hm => (ih m hm).2.1), complM_step range n hVle (fun m hm => (ih m hm).2.2)⟩

/-- every text of the (relaxed) grammar within the depth limit is accepted -/
theorem accepts_complete (range : Bool) (b : List UInt8) (h : ValidText rxCurrent range maxDepth b) :
    accepts range b = true := by
  obtain ⟨w1, v, w2, rfl, hw1, hw2, hval⟩ := h
  unfold accepts
  have hv : value range (2 * (w1 ++ v ++ w2).length + 4) 0 (w1 ++ v ++ w2 ++ [0]) = .ok (w2 ++ [0]) := by
    have e : w1 ++ v ++ w2 ++ [0] = w1 ++ (v ++ (w2 ++ [0])) := by simp
    rw [e, value_ws _ _ _ w1 _ hw1]
    refine (compl_all range v.length).1 maxDepth v rfl hval 0 _ (w2 ++ [0]) (by omega) ?_
      (endOk_ws_then w2 0 [] hw2 (by decide +kernel))
    simp only [List.length_append, List.length_cons, List.length_nil]
    omega
  rw [hv]
  simp only
  rw [skipWs_ws_append w2 _ hw2, skipWs_nonws 0 _ (by decide)]
  simp

end GoJson.Model.BufDec
