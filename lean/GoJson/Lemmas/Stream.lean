import GoJson.Model.Stream
namespace GoJson.Model.Stream

/-- the window: bytes buffered and not yet consumed -/
def window (s : S) : List UInt8 := (s.buf.drop s.cursor).take (s.length - s.cursor)

/-- machine invariant: the cursor is inside the window, there is room for the sentinel, and
everything from `length` on is zero (so `buf[length]` is the NUL sentinel the scanners rely on) -/
structure Inv (s : S) : Prop where
  cur_le : s.cursor ≤ s.length
  len_lt : s.length < s.buf.length
  size_ge : s.buf.length ≤ s.bufSize
  tail_zero : ∀ i, s.length ≤ i → i < s.buf.length → s.buf[i]? = some 0

theorem inv_new (pieces : List (List UInt8)) (fail : Bool) : Inv (new pieces fail) := by
  refine ⟨Nat.le_refl _, ?_, ?_, ?_⟩
  · show 0 < (List.replicate initBufSize (0 : UInt8)).length
    rw [List.length_replicate]; decide
  · show (List.replicate initBufSize (0 : UInt8)).length ≤ initBufSize
    rw [List.length_replicate]; exact Nat.le_refl _
  · intro i _ hi
    show (List.replicate initBufSize (0 : UInt8))[i]? = some 0
    have hi' : i < initBufSize := by
      have : (new pieces fail).buf.length = initBufSize := by
        show (List.replicate initBufSize (0 : UInt8)).length = initBufSize
        rw [List.length_replicate]
      omega
    rw [List.getElem?_replicate]
    simp only [hi', ↓reduceIte]

theorem overwrite_eq (l : List UInt8) (i : Nat) (src : List UInt8) (h : i + src.length ≤ l.length) :
    overwrite l i src = l.take i ++ src ++ l.drop (i + src.length) := by
  unfold overwrite
  have : src.take (l.length - i) = src := List.take_of_length_le (by omega)
  rw [this]

theorem overwrite_length (l : List UInt8) (i : Nat) (src : List UInt8) (h : i + src.length ≤ l.length) :
    (overwrite l i src).length = l.length := by
  rw [overwrite_eq l i src h]
  simp only [List.length_append, List.length_take, List.length_drop]
  omega

theorem reset_unread (s : S) (h : s.cursor ≤ s.length) : unread (reset s) = unread s ∧ consumed (reset s) = consumed s := by
  constructor
  · simp [unread, reset]
  · simp [consumed, reset]

theorem reset_inv (s : S) (h : Inv s) : Inv (reset s) := by
  obtain ⟨h1, h2, h3, h4⟩ := h
  refine ⟨by simp [reset], ?_, ?_, ?_⟩
  · simp only [reset, List.length_drop]; omega
  · simp only [reset, List.length_drop]; omega
  · intro i hi hlt
    simp only [reset, List.length_drop] at hi hlt ⊢
    rw [List.getElem?_drop]
    exact h4 (s.cursor + i) (by omega) (by omega)

theorem advance_unread (s : S) (n : Nat) (h : Inv s) :
    unread (advance s n) = (unread s).drop (min n (s.length - s.cursor)) ∧
      consumed (advance s n) = consumed s + min n (s.length - s.cursor) ∧ Inv (advance s n) := by
  obtain ⟨h1, h2, h3, h4⟩ := h
  have hk : (if s.cursor + n > s.length then s.length - s.cursor else n) = min n (s.length - s.cursor) := by
    split <;> omega
  refine ⟨?_, ?_, ?_⟩
  · simp only [unread, advance, hk]
    generalize hm : min n (s.length - s.cursor) = k
    have hkle : k ≤ s.length - s.cursor := by omega
    rw [List.drop_append_of_le_length (by simp [List.length_take, List.length_drop]; omega)]
    congr 1
    rw [List.drop_take, List.drop_drop]
    congr 1
    omega
  · simp only [consumed, advance, hk]; omega
  · refine ⟨?_, h2, h3, h4⟩
    simp only [advance, hk]; omega

end GoJson.Model.Stream

namespace GoJson.Model.Stream

theorem dropEmpty_flatten (ps : List (List UInt8)) : (dropEmpty ps).flatten = ps.flatten := by
  induction ps with
  | nil => rfl
  | cons p r ih =>
    unfold dropEmpty
    split
    · rename_i hp
      have : p = [] := by simpa using hp
      subst this; simpa using ih
    · rfl

theorem readerRead_spec (ps : List (List UInt8)) (fail : Bool) (room : Nat) :
    (readerRead ps fail room).1 ++ (readerRead ps fail room).2.1.flatten = ps.flatten ∧
      (readerRead ps fail room).1.length ≤ room := by
  unfold readerRead
  cases hd : dropEmpty ps with
  | nil =>
    simp only [List.nil_append, List.flatten_nil, List.length_nil, Nat.zero_le, and_true]
    rw [← dropEmpty_flatten, hd]; rfl
  | cons p r =>
    simp only [List.flatten_cons, List.length_take]
    refine ⟨?_, Nat.min_le_left _ _⟩
    rw [← List.append_assoc, List.take_append_drop, ← dropEmpty_flatten ps, hd]; rfl

/-- the buffer after the optional doubling: same prefix, zero tail -/
def grown (s : S) : List UInt8 :=
  if s.filled then s.buf ++ List.replicate (s.bufSize * 2 - s.buf.length) 0 else s.buf

theorem grown_get (s : S) (h : Inv s) (i : Nat) :
    (i < s.buf.length → (grown s)[i]? = s.buf[i]?) ∧
    (s.length ≤ i → i < (grown s).length → (grown s)[i]? = some 0) ∧ s.buf.length ≤ (grown s).length := by
  unfold grown
  split
  · refine ⟨fun hi => by rw [List.getElem?_append_left hi], ?_, by simp⟩
    intro hl hi
    by_cases hlt : i < s.buf.length
    · rw [List.getElem?_append_left hlt]; exact h.tail_zero i hl hlt
    · rw [List.getElem?_append_right (by omega), List.getElem?_replicate]
      simp only [List.length_append, List.length_replicate] at hi
      have : i - s.buf.length < s.bufSize * 2 - s.buf.length := by omega
      simp [this]
  · exact ⟨fun _ => rfl, fun hl hi => h.tail_zero i hl hi, Nat.le_refl _⟩

theorem grown_take (s : S) (h : Inv s) (n : Nat) (hn : n ≤ s.buf.length) : (grown s).take n = s.buf.take n := by
  unfold grown
  split
  · rw [List.take_append_of_le_length hn]
  · rfl

end GoJson.Model.Stream

namespace GoJson.Model.Stream

theorem window_grown (s : S) (h : Inv s) : ((grown s).drop s.cursor).take (s.length - s.cursor) = window s := by
  unfold window
  have h1 := h.cur_le
  have h2 := h.len_lt
  rw [List.take_drop, List.take_drop]
  have e : s.cursor + (s.length - s.cursor) = s.length := by omega
  rw [e, grown_take s h s.length (by omega)]

/-- **One refill**: under the invariant — whatever bytes the window holds, NUL included — `read` does not panic, keeps
the invariant, does not move the cursor, and neither loses nor duplicates a byte: the unread
input (window followed by what the reader still holds) and the consumed count are unchanged —
whether or not the buffer was doubled. -/
theorem read_ok (s : S) (h : Inv s) :
    ∃ ok s', read s = some (ok, s') ∧ Inv s' ∧ unread s' = unread s ∧ consumed s' = consumed s ∧
      s'.cursor = s.cursor := by
  unfold read
  by_cases hnul : (decide (s.cursor < s.length) && s.buf.getD s.cursor 1 == 0) = true
  · simp only [hnul, ↓reduceIte]
    exact ⟨false, { s with err := true }, rfl, ⟨h.cur_le, h.len_lt, h.size_ge, h.tail_zero⟩, rfl, rfl, rfl⟩
  simp only [hnul, Bool.false_eq_true, ↓reduceIte]
  by_cases har : (s.allRead || s.err) = true
  · simp only [har, ↓reduceIte]
    exact ⟨false, s, rfl, h, rfl, rfl, rfl⟩
  · simp only [har, Bool.false_eq_true, ↓reduceIte]
    have h1 := h.cur_le
    have h2 := h.len_lt
    -- name the grown buffer
    have hb1 : (if s.filled = true then (s.buf ++ List.replicate (s.bufSize * 2 - s.buf.length) 0, s.bufSize * 2)
        else (s.buf, s.bufSize)) = (grown s, if s.filled then s.bufSize * 2 else s.bufSize) := by
      unfold grown; split <;> rfl
    rw [hb1]
    simp only
    obtain ⟨_, _, hgl⟩ := grown_get s h 0
    have e : s.cursor + (s.length - s.cursor) = s.length := by omega
    have hsp : ((grown s).length - s.length == 0) = false := by
      simp only [beq_eq_false_iff_ne, ne_eq]; omega
    simp only [hsp, Bool.false_eq_true, ↓reduceIte]
    generalize hlast : (grown s).length - s.length - 1 = last
    obtain ⟨hrd, hrl⟩ := readerRead_spec s.pieces s.fail last
    generalize hdata : (readerRead s.pieces s.fail last).1 = data at hrd hrl
    generalize hps : (readerRead s.pieces s.fail last).2.1 = pieces' at hrd
    generalize herr : (readerRead s.pieces s.fail last).2.2 = err
    have hrr : readerRead s.pieces s.fail last = (data, pieces', err) := by
      rw [← hdata, ← hps, ← herr]
    -- the buffer after writing the sentinel and the data
    let buf2 := setAt (grown s) (s.length + last) 0
    have hlen2 : buf2.length = (grown s).length := by simp [buf2, setAt]
    have hfit : s.length + data.length ≤ buf2.length := by omega
    have hbuf3 : overwrite buf2 s.length data = buf2.take s.length ++ data ++ buf2.drop (s.length + data.length) :=
      overwrite_eq buf2 s.length data hfit
    have hlen3 : (overwrite buf2 s.length data).length = (grown s).length := by
      rw [overwrite_length buf2 s.length data hfit, hlen2]
    have htake2 : buf2.take s.length = s.buf.take s.length := by
      simp only [buf2, setAt]
      rw [List.take_set_of_le (by omega), grown_take s h s.length (by omega)]
    -- the new state, whatever the error
    have key : ∀ ar : Bool,
        let s' : S := { s with buf := overwrite buf2 s.length data,
                               bufSize := (if s.filled then s.bufSize * 2 else s.bufSize),
                               length := s.length + data.length, filled := data.length == last,
                               pieces := pieces', allRead := ar }
        Inv s' ∧ unread s' = unread s ∧ consumed s' = consumed s ∧ s'.cursor = s.cursor := by
      intro ar
      refine ⟨⟨by show s.cursor ≤ s.length + data.length; omega, by show s.length + data.length < (overwrite buf2 s.length data).length; rw [hlen3]; omega, ?_, ?_⟩, ?_, rfl, rfl⟩
      · simp only [hlen3]
        unfold grown
        split
        · simp only [List.length_append, List.length_replicate]; have := h.size_ge; omega
        · exact h.size_ge
      · intro i hi hlt
        simp only at hi hlt ⊢
        rw [hlen3] at hlt
        rw [hbuf3, List.getElem?_append_right (by simp [List.length_take]; omega)]
        simp only [List.length_append, List.length_take, hlen2]
        have hmin : min s.length (grown s).length = s.length := by omega
        rw [hmin, List.getElem?_drop]
        have eidx : s.length + data.length + (i - (s.length + data.length)) = i := by omega
        rw [eidx]
        simp only [buf2, setAt]
        by_cases hset : s.length + last = i
        · rw [hset, List.getElem?_set_self (by omega)]
        · rw [List.getElem?_set_ne hset]
          exact (grown_get s h i).2.1 (by omega) hlt
      · simp only [unread]
        rw [hbuf3, htake2]
        have e1 : s.length + data.length - s.cursor = (s.length - s.cursor) + data.length := by omega
        rw [e1]
        -- drop cursor of (take length buf ++ data ++ rest), then take (window length + data length)
        have hdl : (s.buf.take s.length).length = s.length := by simp [List.length_take]; omega
        rw [List.append_assoc, List.drop_append_of_le_length (by omega)]
        have hwl : ((s.buf.take s.length).drop s.cursor).length = s.length - s.cursor := by
          simp [List.length_drop, hdl]
        rw [List.take_append, hwl]
        have e2 : s.length - s.cursor + data.length - (s.length - s.cursor) = data.length := by omega
        rw [List.take_of_length_le (by omega), e2, List.take_append_of_le_length (Nat.le_refl _), List.take_length]
        rw [List.append_assoc, hrd]
        congr 1
        rw [List.take_drop, e]
    cases err with
    | eof => exact ⟨true, _, rfl, key true⟩
    | other => exact ⟨false, _, rfl, key s.allRead⟩
    | none => exact ⟨true, _, rfl, key s.allRead⟩

end GoJson.Model.Stream

namespace GoJson.Model.Stream

inductive Op where
  | read | reset | resetPublic | advance (n : Nat)

/-- one operation of the machine (a panicking read leaves the state unchanged and is reported) -/
def step (s : S) : Op → Option S
  | .read => (read s).map (·.2)
  | .reset => some (reset s)
  | .resetPublic => some (resetPublic s)
  | .advance n => some (advance s n)

/-- the state describes exactly the input: consumed prefix + unread rest -/
def Tracks (input : List UInt8) (s : S) : Prop := Inv s ∧ unread s = input.drop (consumed s) ∧ consumed s ≤ input.length

theorem window_prefix (s : S) : ∃ t, unread s = window s ++ t := ⟨s.pieces.flatten, rfl⟩

theorem tracks_new (pieces : List (List UInt8)) (fail : Bool) : Tracks pieces.flatten (new pieces fail) := by
  refine ⟨inv_new pieces fail, ?_, Nat.zero_le _⟩
  simp [unread, consumed, new]

/-- **Every reachable state tracks the input.** For every input, every way the reader
cuts it into pieces (with or without a final failure), and every sequence of refills, resets and
cursor advances: no operation panics, and the bytes not yet consumed are always exactly the input
from position `offset + cursor` on — nothing lost, nothing duplicated, `InputOffset` exact. -/
theorem step_tracks (input : List UInt8) (s : S) (h : Tracks input s) (op : Op) :
    ∃ s', step s op = some s' ∧ Tracks input s' := by
  obtain ⟨hinv, hun, hle⟩ := h
  cases op with
  | read =>
    obtain ⟨ok, s', hr, hinv', hun', hc', _⟩ := read_ok s hinv
    exact ⟨s', by simp [step, hr], hinv', by rw [hun', hc', hun], by rw [hc']; exact hle⟩
  | reset =>
    obtain ⟨hu, hc⟩ := reset_unread s hinv.cur_le
    exact ⟨reset s, rfl, reset_inv s hinv, by rw [hu, hc, hun], by rw [hc]; exact hle⟩
  | resetPublic =>
    obtain ⟨hu, hc⟩ := reset_unread s hinv.cur_le
    have hi := reset_inv s hinv
    refine ⟨resetPublic s, rfl, ⟨hi.cur_le, hi.len_lt, Nat.le_refl _, hi.tail_zero⟩, ?_, ?_⟩
    · show unread (reset s) = _
      rw [hu, hun]; rfl
    · show consumed (reset s) ≤ _
      rw [hc]; exact hle
  | advance n =>
    obtain ⟨hu, hc, hi⟩ := advance_unread s n hinv
    refine ⟨advance s n, rfl, hi, ?_, ?_⟩
    · rw [hu, hc, hun, List.drop_drop]
    · rw [hc]
      -- the window is part of the unread input, so it cannot extend beyond the input's end
      have hwl : (window s).length = s.length - s.cursor := by
        have := hinv.cur_le; have := hinv.len_lt
        simp [window, List.length_take, List.length_drop]; omega
      have : (window s).length ≤ (input.drop (consumed s)).length := by
        rw [← hun]; obtain ⟨t, ht⟩ := window_prefix s; rw [ht]; simp
      simp only [List.length_drop] at this
      omega

theorem trace_tracks (input : List UInt8) (ops : List Op) (s : S) (h : Tracks input s) :
    ∃ s', ops.foldlM step s = some s' ∧ Tracks input s' := by
  induction ops generalizing s with
  | nil => exact ⟨s, rfl, h⟩
  | cons op ops ih =>
    obtain ⟨s1, hs1, ht1⟩ := step_tracks input s h op
    obtain ⟨s', hs', ht'⟩ := ih s1 ht1
    exact ⟨s', by simp [List.foldlM, hs1, hs'], ht'⟩

end GoJson.Model.Stream
