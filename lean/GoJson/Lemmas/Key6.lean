import GoJson.Lemmas.Key5
namespace GoJson.Model.Key

def rawSpec (names : List (List UInt8)) (w cur idx : Nat) (l : List UInt8) : RR :=
  match keyChars l with
  | none => .err
  | some chars => ofKR (scan names w cur idx chars)

theorem rawScan_eq (names : List (List UInt8)) (w : Nat) (n : Nat) : ∀ (l : List UInt8) (cur idx : Nat),
    l.length ≤ n → Term l → (∀ cs, cs ≠ [] → scan names w cur idx cs ≠ .panic) →
    rawScan names w cur idx l = rawSpec names w cur idx l := by
  induction n with
  | zero =>
    intro l _ _ hl ht _
    have := Term_len l ht
    omega
  | succ n ih =>
    intro l cur idx hl ht hnp
    cases l with
    | nil => have := Term_len _ ht; simp at this
    | cons c r =>
      unfold rawScan rawSpec keyChars
      by_cases h34 : (c == 34) = true
      · simp only [h34, if_true]
        conv => rhs; unfold scan
      by_cases h0 : c.toNat < 32
      · simp [h34, h0]
      have hc0 : (c == 0) = false := by
        cases h : (c == 0) with
        | false => rfl
        | true => rw [beq_iff_eq] at h; subst h; simp at h0
      have htr := Term_tail c r ht hc0
      simp only [List.length_cons] at hl
      by_cases h92 : (c == 92) = true
      · simp only [h34, h0, h92, if_true, if_false, Bool.false_eq_true]
        cases he : esc r with
        | none => simp
        | some x =>
          obtain ⟨chars, k⟩ := x
          obtain ⟨hskip, hk1, hk2, hcne⟩ := skipRest_drop_esc r chars k he
          simp only
          have hfeed := fun cs => scan_append_feed names w chars cs cur idx
          cases hf : feed names cur idx chars with
          | panic =>
            have := hfeed []
            rw [hf] at this
            exact absurd this (hnp _ (by simpa using hcne))
          | zero =>
            simp only
            by_cases hlen : k < r.length
            · have htd := Term_drop r k htr.1 hlen
              rw [hskip, skipRest_eq (r.drop k).length (r.drop k) (Nat.le_refl _) htd]
              cases hkc : keyChars (r.drop k) with
              | none => simp
              | some cs =>
                have := hfeed cs
                rw [hf] at this
                simp [this, ofKR]
            · have hd : r.drop k = [] := List.drop_eq_nil_of_le (by omega)
              rw [hskip, hd]
              simp [skipRest, keyChars]
          | cont cur' idx' =>
            simp only
            by_cases hlen : k < r.length
            · have htd := Term_drop r k htr.1 hlen
              have hnp' : ∀ cs, cs ≠ [] → scan names w cur' idx' cs ≠ .panic := by
                intro cs hcs
                have := hfeed cs
                rw [hf] at this
                simp only at this
                rw [← this]
                exact hnp _ (by simp [hcs])
              rw [ih (r.drop k) cur' idx' (by simp only [List.length_drop]; omega) htd hnp']
              unfold rawSpec
              cases hkc : keyChars (r.drop k) with
              | none => simp
              | some cs =>
                have := hfeed cs
                rw [hf] at this
                simp [this]
            · have hd : r.drop k = [] := List.drop_eq_nil_of_le (by omega)
              rw [hd]
              simp [rawScan, keyChars]
      · simp only [h34, h0, h92, if_false, Bool.false_eq_true]
        have hfeed := fun cs => scan_append_feed names w [c] cs cur idx
        cases hf : feed names cur idx [c] with
        | panic =>
          have := hfeed []
          rw [hf] at this
          exact absurd this (hnp _ (by simp))
        | zero =>
          simp only
          rw [skipRest_eq r.length r (Nat.le_refl _) htr.1]
          cases hkc : keyChars r with
          | none => simp
          | some cs =>
            have := hfeed cs
            rw [hf] at this
            simp only [List.cons_append, List.nil_append] at this
            simp [this, ofKR]
        | cont cur' idx' =>
          simp only
          have hnp' : ∀ cs, cs ≠ [] → scan names w cur' idx' cs ≠ .panic := by
            intro cs hcs
            have := hfeed cs
            rw [hf] at this
            simp only at this
            rw [← this]
            exact hnp _ (by simp)
          rw [ih r cur' idx' (by omega) htr.1 hnp']
          unfold rawSpec
          cases hkc : keyChars r with
          | none => simp
          | some cs =>
            have := hfeed cs
            rw [hf] at this
            simp only [List.cons_append, List.nil_append] at this
            simp [this]

end GoJson.Model.Key
