import GoJson.Model.Conc
namespace GoJson.Model.Conc

/-! ### slot cache -/
namespace Slot

def okPC (compile : Nat → Nat) (t : Thread) : Prop :=
  match t.pc with
  | .start => True
  | .loaded none => True
  | .loaded (some p) => p = compile t.typ
  | .compiled p => p = compile t.typ
  | .done p => p = compile t.typ

def Inv (compile : Nat → Nat) (s : St) : Prop :=
  (∀ i p, s.slots i = some p → p = compile i) ∧ ∀ t ∈ s.threads, okPC compile t

theorem stepThread_ok (compile : Nat → Nat) (slots : Nat → Option Nat) (t : Thread)
    (hs : ∀ i p, slots i = some p → p = compile i) (ht : okPC compile t) :
    (∀ i p, (stepThread compile slots t).1 i = some p → p = compile i) ∧ okPC compile (stepThread compile slots t).2 ∧
      (stepThread compile slots t).2.typ = t.typ := by
  unfold stepThread
  cases hpc : t.pc with
  | start =>
    refine ⟨hs, ?_, rfl⟩
    simp only [okPC]
    cases h : slots t.typ with
    | none => trivial
    | some p => exact hs _ _ h
  | loaded r =>
    cases r with
    | none => exact ⟨hs, by simp [okPC], rfl⟩
    | some p =>
      refine ⟨hs, ?_, rfl⟩
      have : p = compile t.typ := by simpa [okPC, hpc] using ht
      simp [okPC, this]
  | compiled p =>
    have hp : p = compile t.typ := by simpa [okPC, hpc] using ht
    refine ⟨?_, by simp [okPC, hp], rfl⟩
    intro i q hq
    simp only [setSlot] at hq
    split at hq
    · rename_i hi
      simp only [Option.some.injEq] at hq
      subst hi; rw [← hq]; exact hp
    · exact hs i q hq
  | done p =>
    have hp : p = compile t.typ := by simpa [okPC, hpc] using ht
    exact ⟨hs, by simp [okPC, hp], rfl⟩

theorem step_inv (compile : Nat → Nat) (s : St) (i : Nat) (h : Inv compile s) : Inv compile (step compile s i) := by
  unfold step
  cases hg : s.threads[i]? with
  | none => exact h
  | some t =>
    have htm : t ∈ s.threads := List.mem_of_getElem? hg
    obtain ⟨h1, h2, _⟩ := stepThread_ok compile s.slots t h.1 (h.2 t htm)
    refine ⟨h1, ?_⟩
    intro u hu
    rcases List.mem_or_eq_of_mem_set hu with hu | rfl
    · exact h.2 u hu
    · exact h2

theorem run_inv (compile : Nat → Nat) (sched : List Nat) : ∀ s, Inv compile s → Inv compile (run compile s sched) := by
  induction sched with
  | nil => intro s h; exact h
  | cons i r ih => intro s h; exact ih _ (step_inv compile s i h)

/-- three steps of its own finish a thread, whatever the others did to the slots in between -/
theorem three_steps_finish (compile : Nat → Nat) (s1 s2 s3 : Nat → Option Nat) (t : Thread) :
    ∃ p, (stepThread compile s3 (stepThread compile s2 (stepThread compile s1 t).2).2).2.pc = .done p := by
  unfold stepThread
  cases t.pc with
  | start =>
    simp only
    cases s1 t.typ with
    | none => exact ⟨_, rfl⟩
    | some p => exact ⟨_, rfl⟩
  | loaded r => cases r <;> exact ⟨_, rfl⟩
  | compiled p => exact ⟨_, rfl⟩
  | done p => exact ⟨_, rfl⟩

end Slot

/-! ### copy-on-write map -/
namespace Cow

def mapOK (compile : Nat → Nat) (m : Map) : Prop := ∀ e ∈ m, e.2 = compile e.1

def okPC (compile : Nat → Nat) (t : Thread) : Prop :=
  match t.pc with
  | .start => True
  | .loaded m => mapOK compile m
  | .compiled m p => mapOK compile m ∧ p = compile t.typ
  | .done p => p = compile t.typ

def Inv (compile : Nat → Nat) (s : St) : Prop := mapOK compile s.cur ∧ ∀ t ∈ s.threads, okPC compile t

theorem lookup_ok (compile : Nat → Nat) (m : Map) (t p : Nat) (hm : mapOK compile m) (h : lookup m t = some p) :
    p = compile t := by
  unfold lookup at h
  cases hf : m.find? (·.1 == t) with
  | none => rw [hf] at h; cases h
  | some e =>
    rw [hf] at h
    simp only [Option.map_some, Option.some.injEq] at h
    have hmem := List.mem_of_find?_eq_some hf
    have hk := List.find?_some hf
    simp only [beq_iff_eq] at hk
    rw [← h, ← hk]
    exact hm e hmem

theorem stepThread_ok (compile : Nat → Nat) (cur : Map) (t : Thread) (hc : mapOK compile cur) (ht : okPC compile t) :
    mapOK compile (stepThread compile cur t).1 ∧ okPC compile (stepThread compile cur t).2 := by
  unfold stepThread
  cases hpc : t.pc with
  | start => exact ⟨hc, by simpa [okPC] using hc⟩
  | loaded m =>
    have hm : mapOK compile m := by simpa [okPC, hpc] using ht
    simp only
    cases hl : lookup m t.typ with
    | none => exact ⟨hc, by simp [okPC, hm]⟩
    | some p => exact ⟨hc, by simp [okPC, lookup_ok compile m t.typ p hm hl]⟩
  | compiled m p =>
    have h2 : mapOK compile m ∧ p = compile t.typ := by simpa [okPC, hpc] using ht
    refine ⟨?_, by simp [okPC, h2.2]⟩
    intro e he
    simp only [List.mem_cons] at he
    rcases he with rfl | he
    · exact h2.2
    · exact h2.1 e he
  | done p =>
    have hp : p = compile t.typ := by simpa [okPC, hpc] using ht
    exact ⟨hc, by simp [okPC, hp]⟩

theorem step_inv (compile : Nat → Nat) (s : St) (i : Nat) (h : Inv compile s) : Inv compile (step compile s i) := by
  unfold step
  cases hg : s.threads[i]? with
  | none => exact h
  | some t =>
    have htm : t ∈ s.threads := List.mem_of_getElem? hg
    obtain ⟨h1, h2⟩ := stepThread_ok compile s.cur t h.1 (h.2 t htm)
    refine ⟨h1, ?_⟩
    intro u hu
    rcases List.mem_or_eq_of_mem_set hu with hu | rfl
    · exact h.2 u hu
    · exact h2

theorem run_inv (compile : Nat → Nat) (sched : List Nat) : ∀ s, Inv compile s → Inv compile (run compile s sched) := by
  induction sched with
  | nil => intro s h; exact h
  | cons i r ih => intro s h; exact ih _ (step_inv compile s i h)

end Cow

end GoJson.Model.Conc
