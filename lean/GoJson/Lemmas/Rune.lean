import GoJson.Lemmas.Str
namespace GoJson.Model.Str
open GoJson GoJson.Spec

/-- classification expected from the rune decoder, from the standard's table of well-formed
sequences: error for an ill-formed head, the two JSONP-unsafe separators singled out -/
def runeSpec (s : List UInt8) : RuneState × Nat :=
  if utf8SeqLen s = 0 then (.error, 1)
  else if s.take 3 = [0xE2, 0x80, 0xA8] then (.lineSep, 3)
  else if s.take 3 = [0xE2, 0x80, 0xA9] then (.paraSep, 3)
  else (.valid, utf8SeqLen s)

theorem u8eq_iff (a b : UInt8) : a = b ↔ a.toNat = b.toNat := UInt8.toNat_inj.symm

macro "fin_arith" : tactic =>
  `(tactic| ((repeat' split) <;> (first | rfl | omega | (simp_all <;> omega) | (simp_all; done))))

theorem dr_ascii (s0 : UInt8) (t : List UInt8) (h : s0.toNat < 0x80) :
    decodeRune (s0 :: t) = runeSpec (s0 :: t) := by
  have hf : firstSpec s0.toNat = 0xF0 := by
    unfold firstSpec
    simp only [Bool.and_eq_true, decide_eq_true_eq, beq_iff_eq]
    (repeat' split) <;> omega
  have hne : s0.toNat ≠ 226 := by omega
  unfold decodeRune runeSpec utf8SeqLen
  simp only [firstTbl_spec, hf]
  simp [u8eq_iff, isCont, hne, h]
  try fin_arith

theorem dr_invalid (s0 : UInt8) (t : List UInt8) (h : (0x80 ≤ s0.toNat ∧ s0.toNat ≤ 0xC1) ∨ 0xF5 ≤ s0.toNat) :
    decodeRune (s0 :: t) = runeSpec (s0 :: t) := by
  have hf : firstSpec s0.toNat = 0xF1 := by
    unfold firstSpec
    simp only [Bool.and_eq_true, decide_eq_true_eq, beq_iff_eq]
    (repeat' split) <;> omega
  have hne : s0.toNat ≠ 226 := by omega
  unfold decodeRune runeSpec utf8SeqLen
  simp only [firstTbl_spec, hf]
  simp [u8eq_iff, isCont, hne, h]
  try fin_arith

theorem dr_two (s0 : UInt8) (t : List UInt8) (h : 0xC2 ≤ s0.toNat ∧ s0.toNat ≤ 0xDF) :
    decodeRune (s0 :: t) = runeSpec (s0 :: t) := by
  have hf : firstSpec s0.toNat = 0x02 := by
    unfold firstSpec
    simp only [Bool.and_eq_true, decide_eq_true_eq, beq_iff_eq]
    (repeat' split) <;> omega
  have hne : s0.toNat ≠ 226 := by omega
  unfold decodeRune runeSpec utf8SeqLen
  simp only [firstTbl_spec, hf]
  rcases t with _ | ⟨s1, t2⟩ <;> simp [u8eq_iff, isCont, hne, h] <;> fin_arith

theorem dr_e0 (s0 : UInt8) (t : List UInt8) (h : s0.toNat = 0xE0) :
    decodeRune (s0 :: t) = runeSpec (s0 :: t) := by
  have hf : firstSpec s0.toNat = 0x13 := by
    unfold firstSpec
    simp only [Bool.and_eq_true, decide_eq_true_eq, beq_iff_eq]
    (repeat' split) <;> omega
  have hne : s0.toNat ≠ 226 := by omega
  unfold decodeRune runeSpec utf8SeqLen
  simp only [firstTbl_spec, hf]
  rcases t with _ | ⟨s1, _ | ⟨s2, t3⟩⟩ <;> simp [u8eq_iff, isCont, hne, h] <;> fin_arith

theorem dr_ed (s0 : UInt8) (t : List UInt8) (h : s0.toNat = 0xED) :
    decodeRune (s0 :: t) = runeSpec (s0 :: t) := by
  have hf : firstSpec s0.toNat = 0x23 := by
    unfold firstSpec
    simp only [Bool.and_eq_true, decide_eq_true_eq, beq_iff_eq]
    (repeat' split) <;> omega
  have hne : s0.toNat ≠ 226 := by omega
  unfold decodeRune runeSpec utf8SeqLen
  simp only [firstTbl_spec, hf]
  rcases t with _ | ⟨s1, _ | ⟨s2, t3⟩⟩ <;> simp [u8eq_iff, isCont, hne, h] <;> fin_arith

set_option maxHeartbeats 1600000 in
theorem dr_e2 (s0 : UInt8) (t : List UInt8) (h : s0.toNat = 0xE2) :
    decodeRune (s0 :: t) = runeSpec (s0 :: t) := by
  have hf : firstSpec s0.toNat = 0x03 := by
    unfold firstSpec
    simp only [Bool.and_eq_true, decide_eq_true_eq, beq_iff_eq]
    (repeat' split) <;> omega
  unfold decodeRune runeSpec utf8SeqLen
  simp only [firstTbl_spec, hf]
  rcases t with _ | ⟨s1, _ | ⟨s2, t3⟩⟩ <;> simp [u8eq_iff, isCont, h] <;> fin_arith

set_option maxHeartbeats 1600000 in
theorem dr_three (s0 : UInt8) (t : List UInt8)
    (h : (0xE1 ≤ s0.toNat ∧ s0.toNat ≤ 0xEC) ∨ s0.toNat = 0xEE ∨ s0.toNat = 0xEF) :
    decodeRune (s0 :: t) = runeSpec (s0 :: t) := by
  by_cases h226 : s0.toNat = 0xE2
  · exact dr_e2 s0 t h226
  have hf : firstSpec s0.toNat = 0x03 := by
    unfold firstSpec
    simp only [Bool.and_eq_true, decide_eq_true_eq, beq_iff_eq]
    (repeat' split) <;> omega
  have a1 : ¬ s0.toNat < 128 := by omega
  have a2 : ¬ (194 ≤ s0.toNat ∧ s0.toNat ≤ 223) := by omega
  have a3 : ¬ s0.toNat = 224 := by omega
  have a4 : (225 ≤ s0.toNat ∧ s0.toNat ≤ 236 ∨ s0.toNat = 238) ∨ s0.toNat = 239 := by omega
  have hne : s0.toNat ≠ 226 := h226
  unfold decodeRune runeSpec utf8SeqLen
  simp only [firstTbl_spec, hf]
  rcases t with _ | ⟨s1, _ | ⟨s2, t3⟩⟩ <;> simp [u8eq_iff, isCont, a1, a2, a3, a4, hne] <;> fin_arith

set_option maxHeartbeats 1600000 in
theorem dr_f0 (s0 : UInt8) (t : List UInt8) (h : s0.toNat = 0xF0) :
    decodeRune (s0 :: t) = runeSpec (s0 :: t) := by
  have hf : firstSpec s0.toNat = 0x34 := by
    unfold firstSpec
    simp only [Bool.and_eq_true, decide_eq_true_eq, beq_iff_eq]
    (repeat' split) <;> omega
  have hne : s0.toNat ≠ 226 := by omega
  unfold decodeRune runeSpec utf8SeqLen
  simp only [firstTbl_spec, hf]
  rcases t with _ | ⟨s1, _ | ⟨s2, _ | ⟨s3, t4⟩⟩⟩ <;> simp [u8eq_iff, isCont, hne, h] <;> fin_arith

set_option maxHeartbeats 1600000 in
theorem dr_f13 (s0 : UInt8) (t : List UInt8) (h : 0xF1 ≤ s0.toNat ∧ s0.toNat ≤ 0xF3) :
    decodeRune (s0 :: t) = runeSpec (s0 :: t) := by
  have hf : firstSpec s0.toNat = 0x04 := by
    unfold firstSpec
    simp only [Bool.and_eq_true, decide_eq_true_eq, beq_iff_eq]
    (repeat' split) <;> omega
  have hne : s0.toNat ≠ 226 := by omega
  unfold decodeRune runeSpec utf8SeqLen
  simp only [firstTbl_spec, hf]
  rcases t with _ | ⟨s1, _ | ⟨s2, _ | ⟨s3, t4⟩⟩⟩ <;> simp [u8eq_iff, isCont, hne, h] <;> fin_arith

set_option maxHeartbeats 1600000 in
theorem dr_f4 (s0 : UInt8) (t : List UInt8) (h : s0.toNat = 0xF4) :
    decodeRune (s0 :: t) = runeSpec (s0 :: t) := by
  have hf : firstSpec s0.toNat = 0x44 := by
    unfold firstSpec
    simp only [Bool.and_eq_true, decide_eq_true_eq, beq_iff_eq]
    (repeat' split) <;> omega
  have hne : s0.toNat ≠ 226 := by omega
  unfold decodeRune runeSpec utf8SeqLen
  simp only [firstTbl_spec, hf]
  rcases t with _ | ⟨s1, _ | ⟨s2, _ | ⟨s3, t4⟩⟩⟩ <;> simp [u8eq_iff, isCont, hne, h] <;> fin_arith

/-- **The table-driven rune decoder agrees with the standard's definition of well-formed UTF-8**,
for every byte string. -/
theorem decodeRune_spec (s0 : UInt8) (t : List UInt8) : decodeRune (s0 :: t) = runeSpec (s0 :: t) := by
  have h0 := s0.toNat_lt
  by_cases h1 : s0.toNat < 0x80
  · exact dr_ascii s0 t h1
  by_cases h2 : (0x80 ≤ s0.toNat ∧ s0.toNat ≤ 0xC1) ∨ 0xF5 ≤ s0.toNat
  · exact dr_invalid s0 t h2
  by_cases h3 : 0xC2 ≤ s0.toNat ∧ s0.toNat ≤ 0xDF
  · exact dr_two s0 t h3
  by_cases h4 : s0.toNat = 0xE0
  · exact dr_e0 s0 t h4
  by_cases h5 : s0.toNat = 0xED
  · exact dr_ed s0 t h5
  by_cases h6 : (0xE1 ≤ s0.toNat ∧ s0.toNat ≤ 0xEC) ∨ s0.toNat = 0xEE ∨ s0.toNat = 0xEF
  · exact dr_three s0 t h6
  by_cases h7 : s0.toNat = 0xF0
  · exact dr_f0 s0 t h7
  by_cases h8 : 0xF1 ≤ s0.toNat ∧ s0.toNat ≤ 0xF3
  · exact dr_f13 s0 t h8
  have h9 : s0.toNat = 0xF4 := by omega
  exact dr_f4 s0 t h9

end GoJson.Model.Str
