/-
The skip functions accept what the decoders accept: simulation between `Model.Skip` and
`Model.BufDec` (range check off), by induction on the fuel.
-/
import GoJson.Model.Skip
import GoJson.Lemmas.BufCompl2
import GoJson.Lemmas.BufSound3

namespace GoJson.Model.Skip
open GoJson GoJson.Spec GoJson.Model.BufDec

/-- the byte after a number token is not one that may follow a number -/
def BadEnd (rest : List UInt8) : Prop := ∃ c t, rest = c :: t ∧ validEnd c = false

theorem number_imp_skip (b : UInt8) (r rest : List UInt8) (h : number false b r = .ok rest) :
    skipNumber b r = .ok rest := by
  unfold number at h
  unfold skipNumber
  simp only at h ⊢
  cases hm : (munch r).2 with
  | nil => simp [hm] at h
  | cons c t =>
    simp only [hm] at h ⊢
    by_cases h1 : validEnd c = true
    · by_cases h2 : isNumber (b :: (munch r).1) = true
      · simp only [h1, h2, Bool.not_true, Bool.false_eq_true, if_false, Bool.false_and, R.ok.injEq] at h
        simp [h2, h]
      · simp [h1, h2] at h
    · simp [h1] at h

theorem skip_imp_number (b : UInt8) (r rest : List UInt8) (h : skipNumber b r = .ok rest) :
    number false b r = .ok rest ∨ BadEnd rest := by
  unfold skipNumber at h
  unfold number
  simp only at h ⊢
  cases hm : (munch r).2 with
  | nil => simp [hm] at h
  | cons c t =>
    simp only [hm] at h ⊢
    by_cases h2 : isNumber (b :: (munch r).1) = true
    · simp only [h2, if_true, R.ok.injEq] at h
      by_cases h1 : validEnd c = true
      · left; simp [h1, h2, h]
      · right; exact ⟨c, t, h.symm, by simpa using h1⟩
    · simp [h2] at h

/-- a byte that may not follow a number is no white space, bracket, brace or comma -/
theorem badEnd_stuck (rest : List UInt8) (h : BadEnd rest) :
    ∃ c t, skipWs rest = c :: t ∧ (c == 93) = false ∧ (c == 44) = false ∧ (c == 125) = false := by
  obtain ⟨c, t, rfl, hc⟩ := h
  have hws : isWsByte c = false := by
    cases hw : isWsByte c with
    | false => rfl
    | true => rw [ws_validEnd c hw] at hc; cases hc
  refine ⟨c, t, skipWs_nonws c t hws, ?_, ?_, ?_⟩ <;>
  · cases hq : (c == _) with
    | false => rfl
    | true =>
      rw [beq_iff_eq] at hq
      subst hq
      revert hc; decide +kernel

theorem sim (fuel : Nat) :
    (∀ d s rest, value false fuel d s = .ok rest → skipV fuel d s = .ok rest) ∧
    (∀ d s rest, skipV fuel d s = .ok rest → value false fuel d s = .ok rest ∨ BadEnd rest) ∧
    (∀ d s rest, elements false fuel d s = .ok rest ↔ skipElems fuel d s = .ok rest) ∧
    (∀ d s rest, members false fuel d s = .ok rest ↔ skipMembers fuel d s = .ok rest) := by
  induction fuel with
  | zero =>
    refine ⟨?_, ?_, ?_, ?_⟩
    · intro d s rest h; unfold value at h; cases h
    · intro d s rest h; unfold skipV at h; cases h
    · intro d s rest; unfold elements skipElems; simp
    · intro d s rest; unfold members skipMembers; simp
  | succ fuel ih =>
    obtain ⟨ih1, ih2, ih3, ih4⟩ := ih
    refine ⟨?_, ?_, ?_, ?_⟩
    · -- value → skipV
      intro d s rest h
      unfold value at h
      unfold skipV
      cases hs : skipWs s with
      | nil => simp [hs] at h
      | cons b r =>
        simp only [hs] at h ⊢
        by_cases h1 : (b == 123) = true
        · simp only [h1, if_true] at h ⊢
          by_cases hd : d + 1 > maxDepth
          · simp [hd] at h
          · simp only [hd, if_false] at h ⊢
            cases hs2 : skipWs r with
            | nil => simp [hs2] at h
            | cons c r2 =>
              simp only [hs2] at h ⊢
              by_cases hc : (c == 125) = true
              · simpa [hc] using h
              · simp only [hc, Bool.false_eq_true, if_false] at h ⊢
                exact (ih4 _ _ _).mp h
        · simp only [h1, Bool.false_eq_true, if_false] at h ⊢
          by_cases h2 : (b == 91) = true
          · simp only [h2, if_true] at h ⊢
            by_cases hd : d + 1 > maxDepth
            · simp [hd] at h
            · simp only [hd, if_false] at h ⊢
              cases hs2 : skipWs r with
              | nil => simp [hs2] at h
              | cons c r2 =>
                simp only [hs2] at h ⊢
                by_cases hc : (c == 93) = true
                · simpa [hc] using h
                · simp only [hc, Bool.false_eq_true, if_false] at h ⊢
                  exact (ih3 _ _ _).mp h
          · simp only [h2, Bool.false_eq_true, if_false] at h ⊢
            by_cases h3 : (b == 45 || (decide (48 ≤ b.toNat) && decide (b.toNat ≤ 57))) = true
            · simp only [h3, if_true] at h ⊢
              exact number_imp_skip b r rest h
            · simp only [h3, Bool.false_eq_true, if_false] at h ⊢
              exact h
    · -- skipV → value or a number followed by a byte that cannot follow it
      intro d s rest h
      unfold skipV at h
      unfold value
      cases hs : skipWs s with
      | nil => simp [hs] at h
      | cons b r =>
        simp only [hs] at h ⊢
        by_cases h1 : (b == 123) = true
        · simp only [h1, if_true] at h ⊢
          by_cases hd : d + 1 > maxDepth
          · simp [hd] at h
          · simp only [hd, if_false] at h ⊢
            cases hs2 : skipWs r with
            | nil => simp [hs2] at h
            | cons c r2 =>
              simp only [hs2] at h ⊢
              by_cases hc : (c == 125) = true
              · left; simpa [hc] using h
              · simp only [hc, Bool.false_eq_true, if_false] at h ⊢
                left; exact (ih4 _ _ _).mpr h
        · simp only [h1, Bool.false_eq_true, if_false] at h ⊢
          by_cases h2 : (b == 91) = true
          · simp only [h2, if_true] at h ⊢
            by_cases hd : d + 1 > maxDepth
            · simp [hd] at h
            · simp only [hd, if_false] at h ⊢
              cases hs2 : skipWs r with
              | nil => simp [hs2] at h
              | cons c r2 =>
                simp only [hs2] at h ⊢
                by_cases hc : (c == 93) = true
                · left; simpa [hc] using h
                · simp only [hc, Bool.false_eq_true, if_false] at h ⊢
                  left; exact (ih3 _ _ _).mpr h
          · simp only [h2, Bool.false_eq_true, if_false] at h ⊢
            by_cases h3 : (b == 45 || (decide (48 ≤ b.toNat) && decide (b.toNat ≤ 57))) = true
            · simp only [h3, if_true] at h ⊢
              exact skip_imp_number b r rest h
            · simp only [h3, Bool.false_eq_true, if_false] at h ⊢
              left; exact h
    · -- element loops
      intro d s rest
      unfold elements skipElems
      constructor
      · intro h
        cases hv : value false fuel d s with
        | err => simp [hv] at h
        | oob => simp [hv] at h
        | ok r1 =>
          rw [hv] at h
          rw [ih1 d s r1 hv]
          simp only at h ⊢
          cases hs : skipWs r1 with
          | nil => simp [hs] at h
          | cons c r =>
            simp only [hs] at h ⊢
            by_cases hc : (c == 93) = true
            · simpa [hc] using h
            · simp only [hc, Bool.false_eq_true, if_false] at h ⊢
              by_cases hc2 : (c == 44) = true
              · simp only [hc2, if_true] at h ⊢
                exact (ih3 _ _ _).mp h
              · simp [hc2] at h
      · intro h
        cases hv : skipV fuel d s with
        | err => simp [hv] at h
        | oob => simp [hv] at h
        | ok r1 =>
          rw [hv] at h
          simp only at h
          rcases ih2 d s r1 hv with hval | hbad
          · rw [hval]
            simp only
            cases hs : skipWs r1 with
            | nil => simp [hs] at h
            | cons c r =>
              simp only [hs] at h ⊢
              by_cases hc : (c == 93) = true
              · simpa [hc] using h
              · simp only [hc, Bool.false_eq_true, if_false] at h ⊢
                by_cases hc2 : (c == 44) = true
                · simp only [hc2, if_true] at h ⊢
                  exact (ih3 _ _ _).mpr h
                · simp [hc2] at h
          · obtain ⟨c, t, hs, h93, h44, _⟩ := badEnd_stuck r1 hbad
            simp [hs, h93, h44] at h
    · -- member loops
      intro d s rest
      unfold members skipMembers
      cases hs : skipWs s with
      | nil => simp
      | cons q r =>
        simp only
        by_cases hq : (q != 34) = true
        · simp [hq]
        · simp only [hq, Bool.false_eq_true, if_false]
          cases hst : stringTail r with
          | err => simp
          | oob => simp
          | ok afterKey =>
            simp only
            cases hs2 : skipWs afterKey with
            | nil => simp
            | cons c r2 =>
              simp only
              by_cases hc : (c != 58) = true
              · simp [hc]
              · simp only [hc, Bool.false_eq_true, if_false]
                constructor
                · intro h
                  cases hv : value false fuel d r2 with
                  | err => simp [hv] at h
                  | oob => simp [hv] at h
                  | ok r1 =>
                    rw [hv] at h
                    rw [ih1 d r2 r1 hv]
                    simp only at h ⊢
                    cases hs3 : skipWs r1 with
                    | nil => simp [hs3] at h
                    | cons e r3 =>
                      simp only [hs3] at h ⊢
                      by_cases he : (e == 125) = true
                      · simpa [he] using h
                      · simp only [he, Bool.false_eq_true, if_false] at h ⊢
                        by_cases he2 : (e == 44) = true
                        · simp only [he2, if_true] at h ⊢
                          exact (ih4 _ _ _).mp h
                        · simp [he2] at h
                · intro h
                  cases hv : skipV fuel d r2 with
                  | err => simp [hv] at h
                  | oob => simp [hv] at h
                  | ok r1 =>
                    rw [hv] at h
                    simp only at h
                    rcases ih2 d r2 r1 hv with hval | hbad
                    · rw [hval]
                      simp only
                      cases hs3 : skipWs r1 with
                      | nil => simp [hs3] at h
                      | cons e r3 =>
                        simp only [hs3] at h ⊢
                        by_cases he : (e == 125) = true
                        · simpa [he] using h
                        · simp only [he, Bool.false_eq_true, if_false] at h ⊢
                          by_cases he2 : (e == 44) = true
                          · simp only [he2, if_true] at h ⊢
                            exact (ih4 _ _ _).mpr h
                          · simp [he2] at h
                    · obtain ⟨e, t, hs3, _, h44, h125⟩ := badEnd_stuck r1 hbad
                      simp [hs3, h44, h125] at h

/-- a destination that passes over the whole document accepts what `interface{}` accepts (without
the float64 range check, which belongs to the destination, not to the text) -/
theorem skipAccepts_eq (b : List UInt8) : skipAccepts b = accepts false b := by
  unfold skipAccepts accepts
  obtain ⟨h1, h2, _, _⟩ := sim (2 * b.length + 4)
  cases hv : value false (2 * b.length + 4) 0 (b ++ [0]) with
  | ok rest => rw [h1 _ _ _ hv]
  | err =>
    cases hk : skipV (2 * b.length + 4) 0 (b ++ [0]) with
    | ok rest =>
      rcases h2 _ _ _ hk with hval | hbad
      · rw [hv] at hval; cases hval
      · obtain ⟨c, t, rfl, hc⟩ := hbad
        have hws : isWsByte c = false := by
          cases hw : isWsByte c with
          | false => rfl
          | true => rw [ws_validEnd c hw] at hc; cases hc
        have hc0 : c ≠ 0 := by rintro rfl; revert hc; decide +kernel
        simp [skipWs_nonws c t hws, hc0]
    | err => rfl
    | oob => rfl
  | oob =>
    cases hk : skipV (2 * b.length + 4) 0 (b ++ [0]) with
    | ok rest =>
      rcases h2 _ _ _ hk with hval | hbad
      · rw [hv] at hval; cases hval
      · obtain ⟨c, t, rfl, hc⟩ := hbad
        have hws : isWsByte c = false := by
          cases hw : isWsByte c with
          | false => rfl
          | true => rw [ws_validEnd c hw] at hc; cases hc
        have hc0 : c ≠ 0 := by rintro rfl; revert hc; decide +kernel
        simp [skipWs_nonws c t hws, hc0]
    | err => rfl
    | oob => rfl

end GoJson.Model.Skip
