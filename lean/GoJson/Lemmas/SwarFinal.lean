import GoJson.Lemmas.SwarWords
namespace GoJson.Model.Str
open GoJson

theorem tailScan_none (t : UInt8 → Bool) (s : List UInt8) (f : Nat) (h : tailScan t s f = none) :
    ∀ k, f ≤ k → k < s.length → t (s.getD k 0) = false := by
  intro k hfk hk
  unfold tailScan at h
  rw [List.find?_eq_none] at h
  have := h k (by
    simp only [List.mem_map, List.mem_range]
    exact ⟨k - f, by omega, by omega⟩)
  simpa using this

theorem tailScan_some (t : UInt8 → Bool) (s : List UInt8) (f j : Nat) (h : tailScan t s f = some j) :
    f ≤ j ∧ ∀ k, f ≤ k → k < j → t (s.getD k 0) = false := by
  unfold tailScan at h
  obtain ⟨_, as, bs, hsplit, hbefore⟩ := List.find?_eq_some_iff_append.mp h
  -- the list is f, f+1, …; position of j is j - f and everything before is not a hit
  have hmem : j ∈ (List.range (s.length - f)).map (· + f) := by rw [hsplit]; simp
  simp only [List.mem_map, List.mem_range] at hmem
  obtain ⟨i, hi, rfl⟩ := hmem
  refine ⟨by omega, ?_⟩
  intro k hfk hk
  -- k = f + (k - f) with k - f < i, so k is in `as`
  have hk_in : k ∈ as := by
    have hlen : as.length = i := by
      have hnd : ((List.range (s.length - f)).map (· + f)) = as ++ (i + f) :: bs := hsplit
      -- element at index as.length is i+f; the list maps index p to p+f
      have hget := congrArg (fun l => l[as.length]?) hnd
      simp only [List.getElem?_map, List.getElem?_append_right (Nat.le_refl _), Nat.sub_self,
        List.getElem?_cons_zero] at hget
      cases hr : (List.range (s.length - f))[as.length]? with
      | none => simp [hr] at hget
      | some v =>
        simp only [hr, Option.map_some, Option.some.injEq] at hget
        have hv : v = as.length := by
          have := List.getElem?_range (n := s.length - f) (i := as.length)
          by_cases hlt : as.length < s.length - f
          · rw [List.getElem?_range hlt] at hr; simpa using hr.symm
          · rw [List.getElem?_eq_none (by simp; omega)] at hr; cases hr
        omega
    have hnd : ((List.range (s.length - f)).map (· + f)) = as ++ (i + f) :: bs := hsplit
    have hget := congrArg (fun l => l[k - f]?) hnd
    have hkf : k - f < as.length := by omega
    simp only [List.getElem?_map, List.getElem?_append_left hkf] at hget
    rw [List.getElem?_range (by omega)] at hget
    simp only [Option.map_some] at hget
    have e : k - f + f = k := by omega
    rw [e] at hget
    exact List.mem_of_getElem? hget.symm
  simpa using hbefore k hk_in

end GoJson.Model.Str

namespace GoJson.Model.Str
open GoJson

theorem all_getD (s : List UInt8) (P : UInt8 → Prop) (n : Nat) (hn : n ≤ s.length)
    (h : ∀ k, k < n → P (s.getD k 0)) : ∀ b ∈ s.take n, P b := by
  intro b hb
  obtain ⟨i, hi, rfl⟩ := List.mem_iff_getElem.mp hb
  have hi' : i < n := by simp at hi; omega
  have := h i hi'
  rw [List.getD_eq_getElem?_getD, List.getElem?_eq_getElem (by omega)] at this
  simpa [List.getElem_take] using this

/-- **The SWAR pre-scan never skips a byte that needs escaping**: for every string, every length and
every alignment of its contents relative to the 8-byte windows, the optimised escaper produces
exactly what the byte-at-a-time escaper started at position 0 produces. -/
theorem escape_eq_ref (html norm : Bool) (s : List UInt8) : escape html norm s = escapeRef html norm s := by
  unfold escape escapeRef
  by_cases he : s.isEmpty = true
  · have : s = [] := by simpa using he
    subst this
    simp [slow]
  · simp only [he, Bool.false_eq_true, ↓reduceIte]
    unfold startIndex
    by_cases h8 : 8 ≤ s.length
    · simp only [ge_iff_le, h8, ↓reduceIte]
      cases hsw : swarWords html s with
      | some j =>
        obtain ⟨hj7, hclean⟩ := swar_some html s j hsw
        have hpre : ∀ b ∈ s.take j, tbl html norm b = false :=
          all_getD s _ j (by omega) (fun k hk => clean_tbl html norm _ (hclean k hk))
        have := slow_clean_prefix html norm (s.take j) (s.drop j) hpre
        rw [List.take_append_drop] at this
        simp [this]
      | none =>
        have hwords := swar_none html s hsw
        cases hts : tailScan (tbl html norm) s (s.length / 8 * 8) with
        | some j =>
          obtain ⟨hfj, htail⟩ := tailScan_some _ s _ j hts
          by_cases hjl : j ≤ s.length
          · have hpre : ∀ b ∈ s.take j, tbl html norm b = false :=
              all_getD s _ j hjl (fun k hk => by
                by_cases hkw : k < s.length / 8 * 8
                · exact clean_tbl html norm _ (hwords k hkw)
                · exact htail k (by omega) hk)
            have := slow_clean_prefix html norm (s.take j) (s.drop j) hpre
            rw [List.take_append_drop] at this
            simp [this]
          · -- j beyond the end cannot come out of the scan, but the equation holds anyway
            have hall : ∀ b ∈ s.take s.length, tbl html norm b = false :=
              all_getD s (fun b => tbl html norm b = false) s.length (Nat.le_refl _) (fun k hk => by
                by_cases hkw : k < s.length / 8 * 8
                · exact clean_tbl html norm _ (hwords k hkw)
                · exact htail k (by omega) (by omega))
            have hpre : ∀ b ∈ s.take j, tbl html norm b = false := by
              rw [List.take_of_length_le (by omega)]
              simpa using hall
            have := slow_clean_prefix html norm (s.take j) (s.drop j) hpre
            rw [List.take_append_drop] at this
            simp [this]
        | none =>
          have htail := tailScan_none _ s _ hts
          have hall : ∀ b ∈ s, tbl html norm b = false := by
            have := all_getD s (fun b => tbl html norm b = false) s.length (Nat.le_refl _) (fun k hk => by
              by_cases hkw : k < s.length / 8 * 8
              · exact clean_tbl html norm _ (hwords k hkw)
              · exact htail k (by omega) hk)
            simpa using this
          have := slow_clean_prefix html norm s [] hall
          simp only [List.append_nil] at this
          rw [this]
          have hs : slow html norm [] = [] := by unfold slow; rfl
          simp [hs]
    · simp [h8]

end GoJson.Model.Str
