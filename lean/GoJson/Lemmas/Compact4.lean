import GoJson.Lemmas.Compact3
namespace GoJson.Model.Compact
open GoJson GoJson.Spec

def ComplV (lay : Layout) (n : Nat) : Prop :=
  ∀ depth v o, v.length = n → CVal lay depth v o → ∀ fuel rest,
    2 * (v ++ rest).length + 1 ≤ fuel → NextOk rest → cvalue false lay fuel depth (v ++ rest) = .ok o rest
def ComplE (lay : Layout) (n : Nat) : Prop :=
  ∀ depth body o, body.length = n → CElems lay depth body o → ∀ fuel rest,
    2 * (body ++ 93 :: rest).length + 2 ≤ fuel → celements false lay fuel depth (body ++ 93 :: rest) = .ok o rest
def ComplM (lay : Layout) (n : Nat) : Prop :=
  ∀ depth body o, body.length = n → CMems lay depth body o → ∀ fuel rest,
    2 * (body ++ 125 :: rest).length + 2 ≤ fuel → cmembers false lay fuel depth (body ++ 125 :: rest) = .ok o rest

theorem complV_step (lay : Layout) (n : Nat) (hE : ∀ m, m < n → ComplE lay m) (hM : ∀ m, m < n → ComplM lay m) :
    ComplV lay n := by
  intro depth v o hlen hval fuel rest hfuel hend
  obtain ⟨f, rfl⟩ : ∃ f, fuel = f + 1 := ⟨fuel - 1, by omega⟩
  unfold cvalue
  cases hval with
  | null =>
    simp only [List.cons_append, List.nil_append]
    rw [skipWs_nonws 110 _ (by decide)]
    simp only [show ((110 : UInt8) == 123) = false by decide, show ((110 : UInt8) == 91) = false by decide,
      show ((110 : UInt8) == 45 || (decide (48 ≤ (110 : UInt8).toNat) && decide ((110 : UInt8).toNat ≤ 57))) = false by decide,
      show ((110 : UInt8) == 34) = false by decide, show ((110 : UInt8) == 116) = false by decide,
      show ((110 : UInt8) == 102) = false by decide, Bool.false_eq_true, ↓reduceIte, beq_self_eq_true]
    exact clit_complete [110, 117, 108, 108] rest
  | true_ =>
    simp only [List.cons_append, List.nil_append]
    rw [skipWs_nonws 116 _ (by decide)]
    simp only [show ((116 : UInt8) == 123) = false by decide, show ((116 : UInt8) == 91) = false by decide,
      show ((116 : UInt8) == 45 || (decide (48 ≤ (116 : UInt8).toNat) && decide ((116 : UInt8).toNat ≤ 57))) = false by decide,
      show ((116 : UInt8) == 34) = false by decide, Bool.false_eq_true, ↓reduceIte, beq_self_eq_true]
    exact clit_complete [116, 114, 117, 101] rest
  | false_ =>
    simp only [List.cons_append, List.nil_append]
    rw [skipWs_nonws 102 _ (by decide)]
    simp only [show ((102 : UInt8) == 123) = false by decide, show ((102 : UInt8) == 91) = false by decide,
      show ((102 : UInt8) == 45 || (decide (48 ≤ (102 : UInt8).toNat) && decide ((102 : UInt8).toNat ≤ 57))) = false by decide,
      show ((102 : UInt8) == 34) = false by decide, show ((102 : UInt8) == 116) = false by decide,
      Bool.false_eq_true, ↓reduceIte, beq_self_eq_true]
    exact clit_complete [102, 97, 108, 115, 101] rest
  | num _ _ hn =>
    obtain ⟨b, r, ht, hb, hall⟩ := BufDec.isNumber_alpha v hn
    subst ht
    have hbws : isWsByte b = false ∧ (b == 123) = false ∧ (b == 91) = false ∧ (b == 34) = false ∧
        (b == 45 || (decide (48 ≤ b.toNat) && decide (b.toNat ≤ 57))) = true := by
      rcases hb with rfl | hb
      · decide
      · simp only [isDig, Bool.and_eq_true, decide_eq_true_eq] at hb
        refine ⟨?_, ?_, ?_, ?_, ?_⟩
        · simp only [isWsByte, BufDec.u8beq, UInt8.toNat_ofNat, Nat.reducePow, Nat.reduceMod, Bool.or_eq_false_iff, beq_eq_false_iff_ne, ne_eq]; omega
        · simp only [BufDec.u8beq, UInt8.toNat_ofNat, Nat.reducePow, Nat.reduceMod, beq_eq_false_iff_ne, ne_eq]; omega
        · simp only [BufDec.u8beq, UInt8.toNat_ofNat, Nat.reducePow, Nat.reduceMod, beq_eq_false_iff_ne, ne_eq]; omega
        · simp only [BufDec.u8beq, UInt8.toNat_ofNat, Nat.reducePow, Nat.reduceMod, beq_eq_false_iff_ne, ne_eq]; omega
        · simp [hb.1, hb.2]
    simp only [List.cons_append]
    rw [skipWs_nonws b _ hbws.1]
    simp only [hbws.2.1, hbws.2.2.1, hbws.2.2.2.1, hbws.2.2.2.2, Bool.false_eq_true, ↓reduceIte]
    exact cnumber_complete (b :: r) rest b r rfl hn hend hall
  | str _ items hw =>
    simp only [List.cons_append, List.append_assoc, List.nil_append]
    rw [skipWs_nonws 34 _ (by decide)]
    simp only [show ((34 : UInt8) == 123) = false by decide, show ((34 : UInt8) == 91) = false by decide,
      Bool.false_eq_true, ↓reduceIte, beq_self_eq_true]
    exact cstring_complete items rest hw
  | arrEmpty _ w hd hw =>
    simp only [List.cons_append, List.append_assoc, List.nil_append]
    rw [skipWs_nonws 91 _ (by decide)]
    simp only [show ((91 : UInt8) == 123) = false by decide, Bool.false_eq_true, ↓reduceIte, beq_self_eq_true]
    have : ¬ (depth + 1 > maxDepth) := by omega
    simp only [this, ↓reduceIte]
    rw [skipWs_ws_append w _ hw, skipWs_nonws 93 _ (by decide)]
    simp
  | arr _ body o' hd hel =>
    simp only [List.cons_append, List.append_assoc, List.nil_append]
    rw [skipWs_nonws 91 _ (by decide)]
    simp only [show ((91 : UInt8) == 123) = false by decide, Bool.false_eq_true, ↓reduceIte, beq_self_eq_true]
    have : ¬ (depth + 1 > maxDepth) := by omega
    simp only [this, ↓reduceIte]
    have hhead : ∃ c r2, skipWs (body ++ 93 :: rest) = c :: r2 ∧ c ≠ 93 := by
      cases hel with
      | one _ w1 v1 w2 o1 h1 hv h2 =>
        obtain ⟨b, t, hb, hbws, hb93, _⟩ := cval_head _ _ _ _ hv
        refine ⟨b, t ++ w2 ++ 93 :: rest, ?_, hb93⟩
        rw [hb]; simp only [List.append_assoc, List.cons_append]
        rw [skipWs_ws_append w1 _ h1, skipWs_nonws b _ hbws]
      | more _ w1 v1 w2 rest' o1 o2 h1 hv h2 hr =>
        obtain ⟨b, t, hb, hbws, hb93, _⟩ := cval_head _ _ _ _ hv
        refine ⟨b, t ++ w2 ++ 44 :: rest' ++ 93 :: rest, ?_, hb93⟩
        rw [hb]; simp only [List.append_assoc, List.cons_append]
        rw [skipWs_ws_append w1 _ h1, skipWs_nonws b _ hbws]
    obtain ⟨c, r2, hsk, hc⟩ := hhead
    rw [hsk]
    simp only [show (c == 93) = false by simpa using hc, Bool.false_eq_true, ↓reduceIte]
    rw [← hsk, celements_skipWs]
    have hlb : body.length < n := by rw [← hlen]; simp; omega
    rw [hE body.length hlb (depth + 1) body o' rfl hel f rest (by
      simp only [List.length_append, List.length_cons] at hfuel ⊢; omega)]
  | objEmpty _ w hd hw =>
    simp only [List.cons_append, List.append_assoc, List.nil_append]
    rw [skipWs_nonws 123 _ (by decide)]
    simp only [Bool.false_eq_true, ↓reduceIte, beq_self_eq_true]
    have : ¬ (depth + 1 > maxDepth) := by omega
    simp only [this, ↓reduceIte]
    rw [skipWs_ws_append w _ hw, skipWs_nonws 125 _ (by decide)]
    simp
  | obj _ body o' hd hmem =>
    simp only [List.cons_append, List.append_assoc, List.nil_append]
    rw [skipWs_nonws 123 _ (by decide)]
    simp only [Bool.false_eq_true, ↓reduceIte, beq_self_eq_true]
    have : ¬ (depth + 1 > maxDepth) := by omega
    simp only [this, ↓reduceIte]
    have hhead : ∃ r2, skipWs (body ++ 125 :: rest) = 34 :: r2 := by
      cases hmem with
      | one _ w1 key w2 w3 v1 w4 o1 h1 hk h2 h3 hv h4 =>
        refine ⟨renderAll key ++ [34] ++ w2 ++ 58 :: (w3 ++ v1 ++ w4) ++ 125 :: rest, ?_⟩
        simp only [List.append_assoc, List.cons_append]
        rw [skipWs_ws_append w1 _ h1, skipWs_nonws 34 _ (by decide)]
      | more _ w1 key w2 w3 v1 w4 rest' o1 o2 h1 hk h2 h3 hv h4 hr =>
        refine ⟨renderAll key ++ [34] ++ w2 ++ 58 :: (w3 ++ v1 ++ w4) ++ 44 :: rest' ++ 125 :: rest, ?_⟩
        simp only [List.append_assoc, List.cons_append]
        rw [skipWs_ws_append w1 _ h1, skipWs_nonws 34 _ (by decide)]
    obtain ⟨r2, hsk⟩ := hhead
    rw [hsk]
    simp only [show ((34 : UInt8) == 125) = false by decide, Bool.false_eq_true, ↓reduceIte]
    rw [← hsk, cmembers_skipWs]
    have hlb : body.length < n := by rw [← hlen]; simp; omega
    rw [hM body.length hlb (depth + 1) body o' rfl hmem f rest (by
      simp only [List.length_append, List.length_cons] at hfuel ⊢; omega)]


theorem not_float_lits : floatTbl 93 = false ∧ floatTbl 44 = false ∧ floatTbl 125 = false ∧ floatTbl 0 = false := by
  decide +kernel

theorem complE_step (lay : Layout) (n : Nat) (hV : ∀ m, m ≤ n → ComplV lay m) (hE : ∀ m, m < n → ComplE lay m) :
    ComplE lay n := by
  intro depth body o hlen hel fuel rest hfuel
  obtain ⟨f, rfl⟩ : ∃ f, fuel = f + 1 := ⟨fuel - 1, by omega⟩
  unfold celements
  cases hel with
  | one _ w1 v w2 o1 h1 hv h2 =>
    have hvl : v.length ≤ n := by rw [← hlen]; simp; omega
    have hval : cvalue false lay f depth (w1 ++ v ++ w2 ++ 93 :: rest) = .ok o1 (w2 ++ 93 :: rest) := by
      rw [List.append_assoc, List.append_assoc, cvalue_ws _ _ _ w1 _ h1]
      refine hV v.length hvl depth v o1 rfl hv f (w2 ++ 93 :: rest) ?_ (nextOk_ws_then w2 93 rest h2 not_float_lits.1)
      simp only [List.length_append, List.length_cons] at hfuel ⊢
      omega
    rw [hval]
    simp only
    rw [skipWs_ws_append w2 _ h2, skipWs_nonws 93 _ (by decide)]
    simp
  | more _ w1 v w2 rest' o1 o2 h1 hv h2 hr =>
    have hvl : v.length ≤ n := by rw [← hlen]; simp; omega
    have hval : cvalue false lay f depth (w1 ++ v ++ w2 ++ 44 :: rest' ++ 93 :: rest) =
        .ok o1 (w2 ++ 44 :: (rest' ++ 93 :: rest)) := by
      have e : w1 ++ v ++ w2 ++ 44 :: rest' ++ 93 :: rest = w1 ++ (v ++ (w2 ++ 44 :: (rest' ++ 93 :: rest))) := by simp
      rw [e, cvalue_ws _ _ _ w1 _ h1]
      refine hV v.length hvl depth v o1 rfl hv f _ ?_ (nextOk_ws_then w2 44 _ h2 not_float_lits.2.1)
      simp only [List.length_append, List.length_cons] at hfuel ⊢
      omega
    rw [hval]
    simp only
    rw [skipWs_ws_append w2 _ h2, skipWs_nonws 44 _ (by decide)]
    simp only [show ((44 : UInt8) == 93) = false by decide, Bool.false_eq_true, ↓reduceIte, beq_self_eq_true]
    have hrl : rest'.length < n := by rw [← hlen]; simp; omega
    rw [hE rest'.length hrl depth rest' o2 rfl hr f rest (by
      simp only [List.length_append, List.length_cons] at hfuel ⊢; omega)]

theorem complM_step (lay : Layout) (n : Nat) (hV : ∀ m, m ≤ n → ComplV lay m) (hM : ∀ m, m < n → ComplM lay m) :
    ComplM lay n := by
  intro depth body o hlen hmem fuel rest hfuel
  obtain ⟨f, rfl⟩ : ∃ f, fuel = f + 1 := ⟨fuel - 1, by omega⟩
  unfold cmembers
  cases hmem with
  | one _ w1 key w2 w3 v w4 o1 h1 hk h2 h3 hv h4 =>
    have e : w1 ++ (34 :: renderAll key ++ [34]) ++ w2 ++ 58 :: (w3 ++ v ++ w4) ++ 125 :: rest =
        w1 ++ 34 :: (renderAll key ++ 34 :: (w2 ++ 58 :: (w3 ++ (v ++ (w4 ++ 125 :: rest))))) := by simp
    rw [e, skipWs_ws_append w1 _ h1, skipWs_nonws 34 _ (by decide), cstring_complete key _ hk]
    simp only
    rw [skipWs_ws_append w2 _ h2, skipWs_nonws 58 _ (by decide)]
    simp only [bne_self_eq_false, Bool.false_eq_true, ↓reduceIte]
    have hvl : v.length ≤ n := by rw [← hlen]; simp; omega
    have hval : cvalue false lay f depth (w3 ++ (v ++ (w4 ++ 125 :: rest))) = .ok o1 (w4 ++ 125 :: rest) := by
      rw [cvalue_ws _ _ _ w3 _ h3]
      refine hV v.length hvl depth v o1 rfl hv f _ ?_ (nextOk_ws_then w4 125 rest h4 not_float_lits.2.2.1)
      simp only [List.length_append, List.length_cons] at hfuel ⊢
      omega
    rw [hval]
    simp only
    rw [skipWs_ws_append w4 _ h4, skipWs_nonws 125 _ (by decide)]
    simp
  | more _ w1 key w2 w3 v w4 rest' o1 o2 h1 hk h2 h3 hv h4 hr =>
    have e : w1 ++ (34 :: renderAll key ++ [34]) ++ w2 ++ 58 :: (w3 ++ v ++ w4) ++ 44 :: rest' ++ 125 :: rest =
        w1 ++ 34 :: (renderAll key ++ 34 :: (w2 ++ 58 :: (w3 ++ (v ++ (w4 ++ 44 :: (rest' ++ 125 :: rest)))))) := by simp
    rw [e, skipWs_ws_append w1 _ h1, skipWs_nonws 34 _ (by decide), cstring_complete key _ hk]
    simp only
    rw [skipWs_ws_append w2 _ h2, skipWs_nonws 58 _ (by decide)]
    simp only [bne_self_eq_false, Bool.false_eq_true, ↓reduceIte]
    have hvl : v.length ≤ n := by rw [← hlen]; simp; omega
    have hval : cvalue false lay f depth (w3 ++ (v ++ (w4 ++ 44 :: (rest' ++ 125 :: rest)))) =
        .ok o1 (w4 ++ 44 :: (rest' ++ 125 :: rest)) := by
      rw [cvalue_ws _ _ _ w3 _ h3]
      refine hV v.length hvl depth v o1 rfl hv f _ ?_ (nextOk_ws_then w4 44 _ h4 not_float_lits.2.1)
      simp only [List.length_append, List.length_cons] at hfuel ⊢
      omega
    rw [hval]
    simp only
    rw [skipWs_ws_append w4 _ h4, skipWs_nonws 44 _ (by decide)]
    simp only [show ((44 : UInt8) == 125) = false by decide, Bool.false_eq_true, ↓reduceIte, beq_self_eq_true]
    have hrl : rest'.length < n := by rw [← hlen]; simp; omega
    rw [hM rest'.length hrl depth rest' o2 rfl hr f rest (by
      simp only [List.length_append, List.length_cons] at hfuel ⊢; omega)]

theorem compl_all (lay : Layout) (n : Nat) : ComplV lay n ∧ ComplE lay n ∧ ComplM lay n := by
  induction n using Nat.strongRecOn with
  | _ n ih =>
    have hV : ComplV lay n := complV_step lay n (fun m hm => (ih m hm).2.1) (fun m hm => (ih m hm).2.2)
    have hVle : ∀ m, m ≤ n → ComplV lay m := by
      intro m hm
      by_cases h : m = n
      · subst h; exact hV
      · exact (ih m (by omega)).1
    exact ⟨hV, complE_step lay n hVle (fun m hm => (ih m hm).2.1), complM_step lay n hVle (fun m hm => (ih m hm).2.2)⟩

end GoJson.Model.Compact
