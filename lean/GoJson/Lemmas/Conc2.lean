import GoJson.Lemmas.Conc1
namespace GoJson.Model.Conc.Lock

def holdsRead : TS → Bool
  | .reading _ | .reading1 _ | .reading2 _ => true
  | _ => false

def isWriting : TS → Bool
  | .writing _ => true
  | _ => false

def isAnnounced : TS → Bool
  | .announced _ => true
  | _ => false

theorem readers_zero (ts : List TS) (h : ∀ t ∈ ts, holdsRead t = false) : readers ts = 0 := by
  unfold readers
  induction ts with
  | nil => rfl
  | cons a r ih =>
    simp only [List.map_cons, List.sum_cons]
    have ha := h a (by simp)
    have hr := ih (fun t ht => h t (by simp [ht]))
    rw [hr]
    cases a <;> simp [holdsRead] at ha ⊢

theorem writerActive_eq (ts : List TS) : writerActive ts = ts.any isWriting := by
  unfold writerActive
  congr 1

theorem writerWaiting_eq (ts : List TS) : writerWaiting ts = ts.any isAnnounced := by
  unfold writerWaiting
  congr 1

/-- **With the repaired discipline somebody can always move**: in every state in which no
goroutine asks for the lock while holding it, either all are finished or one of them is enabled -/
theorem flat_never_stuck (ts : List TS) (hflat : ∀ t ∈ ts, flat t = true) : stuck ts = false := by
  rw [Bool.eq_false_iff]
  intro hst
  unfold stuck at hst
  rw [Bool.and_eq_true, List.any_eq_true, List.all_eq_true] at hst
  obtain ⟨⟨u, hu, hunf⟩, hnone⟩ := hst
  -- nobody holds the read lock
  have hnoR : ∀ t ∈ ts, holdsRead t = false := by
    intro t ht
    have hn := hnone t ht
    have hf := hflat t ht
    cases t <;> simp [holdsRead, next, flat] at hn hf ⊢
  have hr0 := readers_zero ts hnoR
  -- nobody writes
  have hnoW : ts.any isWriting = false := by
    rw [Bool.eq_false_iff]
    intro h
    rw [List.any_eq_true] at h
    obtain ⟨t, ht, hw⟩ := h
    have hn := hnone t ht
    cases t <;> simp [isWriting, next] at hw hn
  have hwa : writerActive ts = false := by rw [writerActive_eq]; exact hnoW
  -- nobody waits to write
  have hnoA : ts.any isAnnounced = false := by
    rw [Bool.eq_false_iff]
    intro h
    rw [List.any_eq_true] at h
    obtain ⟨t, ht, hw⟩ := h
    have hn := hnone t ht
    cases t <;> simp [isAnnounced, next, hr0, hwa] at hw hn
  have hww : writerWaiting ts = false := by rw [writerWaiting_eq]; exact hnoA
  -- so the unfinished goroutine is idle with something to do, and what it has to do is enabled
  have hn := hnone u hu
  have hf := hflat u hu
  have hRu := hnoR u hu
  cases u with
  | idle rest =>
    cases rest with
    | nil => simp [finished] at hunf
    | cons seg r =>
      cases seg with
      | read => simp [next, canRLock, hwa, hww] at hn
      | write => simp [next] at hn
      | nestedRead => simp [flat] at hf
  | reading r => simp [holdsRead] at hRu
  | reading1 r => simp [holdsRead] at hRu
  | reading2 r => simp [holdsRead] at hRu
  | announced r => simp [next, hr0, hwa] at hn
  | writing r => simp [next] at hn

/-- flatness is kept by every step -/
theorem step_flat (ts : List TS) (i : Nat) (h : ∀ t ∈ ts, flat t = true) : ∀ t ∈ step ts i, flat t = true := by
  unfold step
  cases hg : ts[i]? with
  | none => exact h
  | some t =>
    have htm : t ∈ ts := List.mem_of_getElem? hg
    simp only
    cases hn : next ts t with
    | none => exact h
    | some t' =>
      simp only
      intro u hu
      rcases List.mem_or_eq_of_mem_set hu with hu | rfl
      · exact h u hu
      · have hf := h t htm
        cases t with
        | idle rest =>
          cases rest with
          | nil => simp [next] at hn
          | cons seg r =>
            cases seg with
            | read =>
              simp only [next] at hn
              split at hn
              · simp only [Option.some.injEq] at hn; subst hn
                simpa [flat] using hf
              · cases hn
            | write =>
              simp only [next, Option.some.injEq] at hn; subst hn
              simpa [flat] using hf
            | nestedRead => simp [flat] at hf
        | reading r => simp only [next, Option.some.injEq] at hn; subst hn; simpa [flat] using hf
        | reading1 r => simp [flat] at hf
        | reading2 r => simp [flat] at hf
        | announced r =>
          simp only [next] at hn
          split at hn
          · simp only [Option.some.injEq] at hn; subst hn
            simpa [flat] using hf
          · cases hn
        | writing r => simp only [next, Option.some.injEq] at hn; subst hn; simpa [flat] using hf

end GoJson.Model.Conc.Lock
