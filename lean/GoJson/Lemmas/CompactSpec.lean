/-
The grammar-with-output that Compact and Indent must implement (no HTML escaping): `CVal lay depth v out`
says that `v` is exactly one RFC 8259 value (strict strings, strict numbers) whose containers are
nested below the limit, and that `out` is its canonical layout: tokens verbatim, no white space
(Compact) or newline + prefix + indentation before every element and ": " after keys (Indent).
-/
import GoJson.Model.Compact
import GoJson.Lemmas.JsonString

namespace GoJson.Model.Compact
open GoJson GoJson.Spec

mutual
inductive CVal (lay : Layout) : Nat → List UInt8 → List UInt8 → Prop where
  | null (n : Nat) : CVal lay n [110, 117, 108, 108] [110, 117, 108, 108]
  | true_ (n : Nat) : CVal lay n [116, 114, 117, 101] [116, 114, 117, 101]
  | false_ (n : Nat) : CVal lay n [102, 97, 108, 115, 101] [102, 97, 108, 115, 101]
  | num (n : Nat) (t : List UInt8) : isNumber t = true → CVal lay n t t
  | str (n : Nat) (items : List Item) : (∀ i ∈ items, i.wf true = true) →
      CVal lay n (34 :: renderAll items ++ [34]) (34 :: renderAll items ++ [34])
  | arrEmpty (n : Nat) (w : List UInt8) : n + 1 ≤ maxDepth → AllWs w → CVal lay n (91 :: w ++ [93]) [91, 93]
  | arr (n : Nat) (body o : List UInt8) : n + 1 ≤ maxDepth → CElems lay (n + 1) body o →
      CVal lay n (91 :: body ++ [93]) (91 :: o)
  | objEmpty (n : Nat) (w : List UInt8) : n + 1 ≤ maxDepth → AllWs w → CVal lay n (123 :: w ++ [125]) [123, 125]
  | obj (n : Nat) (body o : List UInt8) : n + 1 ≤ maxDepth → CMems lay (n + 1) body o →
      CVal lay n (123 :: body ++ [125]) (123 :: o)

/-- elements at level `n`; the output includes the closing bracket -/
inductive CElems (lay : Layout) : Nat → List UInt8 → List UInt8 → Prop where
  | one (n : Nat) (w1 v w2 o : List UInt8) : AllWs w1 → CVal lay n v o → AllWs w2 →
      CElems lay n (w1 ++ v ++ w2) (nl lay n ++ o ++ nl lay (n - 1) ++ [93])
  | more (n : Nat) (w1 v w2 rest o o2 : List UInt8) : AllWs w1 → CVal lay n v o → AllWs w2 →
      CElems lay n rest o2 → CElems lay n (w1 ++ v ++ w2 ++ 44 :: rest) (nl lay n ++ o ++ [44] ++ o2)

inductive CMems (lay : Layout) : Nat → List UInt8 → List UInt8 → Prop where
  | one (n : Nat) (w1 : List UInt8) (key : List Item) (w2 w3 v w4 o : List UInt8) : AllWs w1 →
      (∀ i ∈ key, i.wf true = true) → AllWs w2 → AllWs w3 → CVal lay n v o → AllWs w4 →
      CMems lay n (w1 ++ (34 :: renderAll key ++ [34]) ++ w2 ++ 58 :: (w3 ++ v ++ w4))
        (nl lay n ++ (34 :: renderAll key ++ [34]) ++ colon lay ++ o ++ nl lay (n - 1) ++ [125])
  | more (n : Nat) (w1 : List UInt8) (key : List Item) (w2 w3 v w4 rest o o2 : List UInt8) : AllWs w1 →
      (∀ i ∈ key, i.wf true = true) → AllWs w2 → AllWs w3 → CVal lay n v o → AllWs w4 →
      CMems lay n rest o2 →
      CMems lay n (w1 ++ (34 :: renderAll key ++ [34]) ++ w2 ++ 58 :: (w3 ++ v ++ w4) ++ 44 :: rest)
        (nl lay n ++ (34 :: renderAll key ++ [34]) ++ colon lay ++ o ++ [44] ++ o2)
end

end GoJson.Model.Compact
