import GoJson.Lemmas.Enc2
namespace GoJson.Model.Enc
open GoJson GoJson.Spec GoJson.Model.Compact

theorem quotedScalar_cval (html : Bool) (lay : Layout) (n : Nat) :
    ∀ (v : GV) (o : List UInt8), quotedScalar html v = some o → CVal lay n o o
  | .bool b, o, h => by
    simp only [quotedScalar, Option.some.injEq] at h; subst h
    exact quote_cval lay n _ (bool_plain b)
  | .int i, o, h => by
    simp only [quotedScalar, Option.some.injEq] at h; subst h
    exact quote_cval lay n _ (decInt_plain i)
  | .num t z, o, h => by
    simp only [quotedScalar] at h
    split at h
    · rename_i hn
      simp only [Option.some.injEq] at h; subst h
      exact quote_cval lay n _ (number_plain t hn)
    · cases h
  | .str s, o, h => by
    simp only [quotedScalar, Option.some.injEq] at h; subst h
    exact escape_cval html lay n _
  | .ptr v, o, h => by
    simp only [quotedScalar] at h
    exact quotedScalar_cval html lay n v o h
  | .null, o, h => by simp [quotedScalar] at h
  | .raw _, o, h => by simp [quotedScalar] at h
  | .arr _, o, h => by simp [quotedScalar] at h
  | .obj _ _, o, h => by simp [quotedScalar] at h

theorem assemble_nil (lay : Layout) (n : Nat) (op cl : UInt8) : assemble lay n op cl [] = [op, cl] := rfl

theorem assemble_cons (lay : Layout) (n : Nat) (op cl : UInt8) (x : List UInt8) (xs : List (List UInt8)) :
    assemble lay n op cl (x :: xs) = op :: joinItems lay n (x :: xs) ++ nl lay n ++ [cl] := rfl

theorem pairs_nil_left {α β : Type} {R : α → β → Prop} {l : List β} (h : Pairs R [] l) : l = [] := by
  cases h; rfl

mutual
theorem enc_cval (html : Bool) (lay : Layout) : ∀ (v : GV) (n : Nat) (oc ol : List UInt8),
    noRaw v = true → n + height v ≤ maxDepth →
    enc html none n v = some oc → enc html lay n v = some ol → CVal lay n oc ol
  | .null, n, oc, ol, _, _, h1, h2 => by
    simp only [enc, Option.some.injEq] at h1 h2; subst h1; subst h2; exact CVal.null n
  | .bool b, n, oc, ol, _, _, h1, h2 => by
    simp only [enc, Option.some.injEq] at h1 h2; subst h1; subst h2
    cases b
    · exact CVal.false_ n
    · exact CVal.true_ n
  | .int i, n, oc, ol, _, _, h1, h2 => by
    simp only [enc, Option.some.injEq] at h1 h2; subst h1; subst h2
    exact CVal.num n _ (isNumber_decInt i)
  | .num t z, n, oc, ol, _, _, h1, h2 => by
    simp only [enc] at h1 h2
    split at h1
    · rename_i hn
      simp only [hn, if_true, Option.some.injEq] at h1 h2; subst h1; subst h2
      exact CVal.num n _ hn
    · cases h1
  | .str s, n, oc, ol, _, _, h1, h2 => by
    simp only [enc, Option.some.injEq] at h1 h2; subst h1; subst h2
    exact escape_cval html lay n s
  | .raw t, n, oc, ol, hr, _, _, _ => by simp [noRaw] at hr
  | .ptr v, n, oc, ol, hr, hh, h1, h2 => by
    simp only [enc] at h1 h2
    simp only [noRaw] at hr
    simp only [height] at hh
    exact enc_cval html lay v n oc ol hr hh h1 h2
  | .arr es, n, oc, ol, hr, hh, h1, h2 => by
    simp only [enc] at h1 h2
    simp only [noRaw] at hr
    simp only [height] at hh
    cases hc : encEs html none (n + 1) es with
    | none => simp [hc] at h1
    | some ocs =>
      cases hl : encEs html lay (n + 1) es with
      | none => simp [hl] at h2
      | some ols =>
        simp only [hc, hl, Option.map_some, Option.some.injEq] at h1 h2
        subst h1; subst h2
        have hp := encEs_cval html lay es (n + 1) ocs ols hr (by omega) hc hl
        have hd : n + 1 ≤ maxDepth := by omega
        cases ocs with
        | nil =>
          have := pairs_nil_left hp; subst this
          exact CVal.arrEmpty n [] hd allWs_nil
        | cons x xs =>
          cases ols with
          | nil => cases hp
          | cons y ys =>
            have := elems_join lay (n + 1) (by omega) (x :: xs) (y :: ys) hp (by simp)
            simp only [Nat.add_sub_cancel] at this
            have h3 := CVal.arr (lay := lay) n _ _ hd this
            simpa [assemble_cons, nl_none] using h3
  | .obj isMap ms, n, oc, ol, hr, hh, h1, h2 => by
    simp only [enc] at h1 h2
    simp only [noRaw] at hr
    simp only [height] at hh
    cases hc : encMs html none (n + 1) ms with
    | none => simp [hc] at h1
    | some ocs =>
      cases hl : encMs html lay (n + 1) ms with
      | none => simp [hl] at h2
      | some ols =>
        simp only [hc, hl, Option.map_some, Option.some.injEq] at h1 h2
        subst h1; subst h2
        have hp := encMs_cval html lay ms (n + 1) ocs ols hr (by omega) hc hl
        have hd : n + 1 ≤ maxDepth := by omega
        cases ocs with
        | nil =>
          have := pairs_nil_left hp; subst this
          exact CVal.objEmpty n [] hd allWs_nil
        | cons x xs =>
          cases ols with
          | nil => cases hp
          | cons y ys =>
            have := mems_join lay (n + 1) (by omega) (x :: xs) (y :: ys) hp (by simp)
            simp only [Nat.add_sub_cancel] at this
            have h3 := CVal.obj (lay := lay) n _ _ hd this
            simpa [assemble_cons, nl_none] using h3

theorem encEs_cval (html : Bool) (lay : Layout) : ∀ (es : GVs) (m : Nat) (ocs ols : List (List UInt8)),
    noRawEs es = true → m + heightEs es ≤ maxDepth →
    encEs html none m es = some ocs → encEs html lay m es = some ols → Pairs (CVal lay m) ocs ols
  | .nil, m, ocs, ols, _, _, h1, h2 => by
    simp only [encEs, Option.some.injEq] at h1 h2; subst h1; subst h2; exact Pairs.nil
  | .cons v r, m, ocs, ols, hr, hh, h1, h2 => by
    simp only [noRawEs, Bool.and_eq_true] at hr
    simp only [heightEs] at hh
    simp only [encEs] at h1 h2
    cases hv1 : enc html none m v with
    | none => simp [hv1] at h1
    | some o1 =>
      cases hv2 : enc html lay m v with
      | none => simp [hv2] at h2
      | some o2 =>
        cases hr1 : encEs html none m r with
        | none => simp [hv1, hr1] at h1
        | some os1 =>
          cases hr2 : encEs html lay m r with
          | none => simp [hv2, hr2] at h2
          | some os2 =>
            simp only [hv1, hr1, hv2, hr2, Option.some.injEq] at h1 h2
            subst h1; subst h2
            exact Pairs.cons (enc_cval html lay v m o1 o2 hr.1 (by omega) hv1 hv2)
              (encEs_cval html lay r m os1 os2 hr.2 (by omega) hr1 hr2)

theorem encMs_cval (html : Bool) (lay : Layout) : ∀ (ms : GMs) (m : Nat) (ocs ols : List (List UInt8)),
    noRawMs ms = true → m + heightMs ms ≤ maxDepth →
    encMs html none m ms = some ocs → encMs html lay m ms = some ols → Pairs (MemberRel lay m) ocs ols
  | .nil, m, ocs, ols, _, _, h1, h2 => by
    simp only [encMs, Option.some.injEq] at h1 h2; subst h1; subst h2; exact Pairs.nil
  | .cons k om q v r, m, ocs, ols, hr, hh, h1, h2 => by
    simp only [noRawMs, Bool.and_eq_true] at hr
    simp only [heightMs] at hh
    simp only [encMs] at h1 h2
    by_cases hskip : (om && isEmpty v) = true
    · simp only [hskip, if_true] at h1 h2
      exact encMs_cval html lay r m ocs ols hr.2 (by omega) h1 h2
    · simp only [hskip, if_false, Bool.false_eq_true] at h1 h2
      obtain ⟨key, hkey, hwf⟩ := escape_key html k
      cases hr1 : encMs html none m r with
      | none =>
        simp only [hr1] at h1
        split at h1 <;> simp_all
      | some os1 =>
        cases hr2 : encMs html lay m r with
        | none =>
          simp only [hr2] at h2
          split at h2 <;> simp_all
        | some os2 =>
          have hrest := encMs_cval html lay r m os1 os2 hr.2 (by omega) hr1 hr2
          by_cases hq : q = true
          · subst hq
            simp only [if_true, hr1, hr2] at h1 h2
            cases hqs : quotedScalar html v with
            | some o =>
              simp only [hqs, Option.some.injEq] at h1 h2
              subst h1; subst h2
              refine Pairs.cons ⟨key, o, o, hwf, ?_, ?_, quotedScalar_cval html lay m v o hqs⟩ hrest
              · rw [hkey, colon_none]
              · rw [hkey]
            | none =>
              simp only [hqs] at h1 h2
              cases hv1 : enc html none m v with
              | none => simp [hv1] at h1
              | some o1 =>
                cases hv2 : enc html lay m v with
                | none => simp [hv2] at h2
                | some o2 =>
                  simp only [hv1, hv2, Option.some.injEq] at h1 h2
                  subst h1; subst h2
                  refine Pairs.cons ⟨key, o1, o2, hwf, ?_, ?_, enc_cval html lay v m o1 o2 hr.1 (by omega) hv1 hv2⟩ hrest
                  · rw [hkey, colon_none]
                  · rw [hkey]
          · have hq' : q = false := by simpa using hq
            subst hq'
            simp only [Bool.false_eq_true, if_false, hr1, hr2] at h1 h2
            cases hv1 : enc html none m v with
            | none => simp [hv1] at h1
            | some o1 =>
              cases hv2 : enc html lay m v with
              | none => simp [hv2] at h2
              | some o2 =>
                simp only [hv1, hv2, Option.some.injEq] at h1 h2
                subst h1; subst h2
                refine Pairs.cons ⟨key, o1, o2, hwf, ?_, ?_, enc_cval html lay v m o1 o2 hr.1 (by omega) hv1 hv2⟩ hrest
                · rw [hkey, colon_none]
                · rw [hkey]
end

end GoJson.Model.Enc
