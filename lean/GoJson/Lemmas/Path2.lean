import GoJson.Model.Path
namespace GoJson.Model.Path

/-- what `Extract` does with a value once a selector has matched: the nil child selects the value -/
def sub (rest : List Sel) (v : JV) : List JV := if rest = [] then [v] else walk rest v

theorem walkMembers_cons (sels : List Sel) (k : List Nat) (v : JV) (r : JMs) :
    walkMembers sels (.cons k v r) =
      (match field sels k with | some c => sub c v | none => []) ++
      (if isRec sels then walk sels v else []) ++ walkMembers sels r := by
  conv => lhs; unfold walkMembers
  cases field sels k with
  | none => rfl
  | some c => cases c <;> simp [sub]

theorem walkElems_cons (sels : List Sel) (i : Nat) (v : JV) (r : JVs) :
    walkElems sels i (.cons v r) =
      (match index sels i with | some c => sub c v | none => []) ++ walkElems sels (i + 1) r := by
  conv => lhs; unfold walkElems
  cases index sels i with
  | none => rfl
  | some c => cases c <;> simp [sub]

/-- the element at position `k` counted from `i` -/
def pick (k : Int) (i : Nat) (l : List JV) : List JV :=
  if (i : Int) ≤ k then (l[(k - (i : Int)).toNat]?).toList else []

theorem pick_cons (k : Int) (i : Nat) (v : JV) (l : List JV) :
    pick k i (v :: l) = (if k = (i : Int) then [v] else []) ++ pick k (i + 1) l := by
  unfold pick
  by_cases h1 : k = (i : Int)
  · subst h1
    have h : ¬ (((i + 1 : Nat) : Int) ≤ (i : Int)) := by omega
    rw [if_pos (Int.le_refl _), if_pos rfl, if_neg h]
    simp
  · by_cases h2 : (i : Int) ≤ k
    · have h3 : ((i + 1 : Nat) : Int) ≤ k := by omega
      have e1 : (k - (i : Int)).toNat = (k - ((i + 1 : Nat) : Int)).toNat + 1 := by omega
      rw [if_pos h2, if_neg h1, if_pos h3, e1]
      simp
    · have h3 : ¬ (((i + 1 : Nat) : Int) ≤ k) := by omega
      rw [if_neg h2, if_neg h1, if_neg h3]
      simp

mutual
theorem walk_eval : ∀ (v : JV) (s : Sel) (rest : List Sel),
    walk (s :: rest) v = (step s v).flatMap (eval rest)
  | .scalar raw, s, rest => by
    cases s <;> simp [walk, step, descV]
  | .arr es, s, rest => by
    have h := walkElems_eval es s rest 0
    unfold walk
    rw [h]
    cases s with
    | name n => simp [step]
    | index k =>
      simp only [step, pick]
      by_cases hk : 0 ≤ k
      · simp [hk]
      · simp [hk]
    | all => simp [step]
    | desc n => simp [step, descV]
  | .obj ms, s, rest => by
    have h := walkMembers_eval ms s rest
    unfold walk
    rw [h]
    cases s with
    | name n => simp [step]
    | index k => simp [step]
    | all => simp [step]
    | desc n => simp [step, descV]

theorem walkMembers_eval : ∀ (ms : JMs) (s : Sel) (rest : List Sel),
    walkMembers (s :: rest) ms =
      (match s with
        | .name n => membersNamed n ms
        | .desc n => descMs n ms
        | _ => []).flatMap (eval rest)
  | .nil, s, rest => by
    cases s <;> simp [walkMembers, membersNamed, descMs]
  | .cons k v r, s, rest => by
    have ih := walkMembers_eval r s rest
    rw [walkMembers_cons, ih]
    have hsub : ∀ c, sub c v = eval c v := by
      intro c
      cases c with
      | nil => simp [sub, eval]
      | cons s' r' => simp only [sub, eval]; rw [if_neg (by simp)]; exact walk_eval v s' r'
    cases s with
    | name n =>
      simp only [field, isRec, membersNamed]
      by_cases hn : n = k
      · simp [hn, hsub]
      · simp [hn]
    | index i => simp [field, isRec]
    | all => simp [field, isRec]
    | desc n =>
      have hrec := walk_eval v (.desc n) rest
      simp only [field, isRec, descMs, if_true]
      rw [hrec]
      by_cases hn : n = k
      · simp [hn, hsub, step]
      · simp [hn, step]

theorem walkElems_eval : ∀ (es : JVs) (s : Sel) (rest : List Sel) (i : Nat),
    walkElems (s :: rest) i es =
      (match s with
        | .index k => pick k i (elems es)
        | .all => elems es
        | .desc n => descEs n es
        | _ => []).flatMap (eval rest)
  | .nil, s, rest, i => by
    cases s <;> simp [walkElems, elems, descEs, pick]
  | .cons v r, s, rest, i => by
    have ih := walkElems_eval r s rest (i + 1)
    rw [walkElems_cons, ih]
    have hsub : ∀ c, sub c v = eval c v := by
      intro c
      cases c with
      | nil => simp [sub, eval]
      | cons s' r' => simp only [sub, eval]; rw [if_neg (by simp)]; exact walk_eval v s' r'
    cases s with
    | name n => simp [index]
    | index k =>
      simp only [index, elems]
      rw [pick_cons]
      by_cases hk : k = (i : Int)
      · simp [hk, hsub]
      · simp [hk]
    | all => simp [index, elems, hsub]
    | desc n =>
      have hrec := walk_eval v (.desc n) rest
      simp only [index, descEs]
      rw [show sub (.desc n :: rest) v = walk (.desc n :: rest) v by simp [sub], hrec]
      simp [step]
end

end GoJson.Model.Path
