import GoJson.Lemmas.Key2
namespace GoJson.Model.Key

theorem isHex_zero : isHex 0 = false := by decide

theorem isHex_not_ctl (c : UInt8) (h : isHex c = true) : ¬ c.toNat < 32 := by
  simp only [isHex, Bool.or_eq_true, Bool.and_eq_true, decide_eq_true_eq] at h
  omega

theorem isHex_plain (c : UInt8) (h : isHex c = true) : (c == 34) = false ∧ ¬ c.toNat < 32 ∧ (c == 92) = false := by
  refine ⟨?_, isHex_not_ctl c h, ?_⟩ <;>
  · cases hc : (c == _) with
    | false => rfl
    | true =>
      rw [beq_iff_eq] at hc
      subst hc
      revert h; decide

theorem skipRest_plain (c : UInt8) (r : List UInt8) (h1 : (c == 34) = false) (h2 : ¬ c.toNat < 32)
    (h3 : (c == 92) = false) : skipRest (c :: r) = skipRest r := by
  conv => lhs; unfold skipRest
  simp [h1, h2, h3]

theorem hex4_split (r : List UInt8)
    (h : (isHex (r.getD 0 0) && isHex (r.getD 1 0) && isHex (r.getD 2 0) && isHex (r.getD 3 0)) = true) :
    ∃ a b c d rest, r = a :: b :: c :: d :: rest ∧ isHex a = true ∧ isHex b = true ∧ isHex c = true ∧ isHex d = true := by
  simp only [Bool.and_eq_true] at h
  obtain ⟨⟨⟨ha, hb⟩, hc⟩, hd⟩ := h
  match r, ha, hb, hc, hd with
  | [], ha, _, _, _ => simp [isHex_zero] at ha
  | [_], _, hb, _, _ => simp [isHex_zero] at hb
  | [_, _], _, _, hc, _ => simp [isHex_zero] at hc
  | [_, _, _], _, _, _, hd => simp [isHex_zero] at hd
  | a :: b :: c :: d :: rest, ha, hb, hc, hd =>
    exact ⟨a, b, c, d, rest, rfl, by simpa using ha, by simpa using hb, by simpa using hc, by simpa using hd⟩

theorem skipRest_hex4 (a b c d : UInt8) (rest : List UInt8) (ha : isHex a = true) (hb : isHex b = true)
    (hc : isHex c = true) (hd : isHex d = true) :
    skipRest (a :: b :: c :: d :: rest) = skipRest rest := by
  obtain ⟨a1, a2, a3⟩ := isHex_plain a ha
  obtain ⟨b1, b2, b3⟩ := isHex_plain b hb
  obtain ⟨c1, c2, c3⟩ := isHex_plain c hc
  obtain ⟨d1, d2, d3⟩ := isHex_plain d hd
  rw [skipRest_plain a _ a1 a2 a3, skipRest_plain b _ b1 b2 b3, skipRest_plain c _ c1 c2 c3,
    skipRest_plain d _ d1 d2 d3]

theorem skipRest_u (r2 : List UInt8) :
    skipRest (92 :: 117 :: r2) =
      (if isHex (r2.getD 0 0) && isHex (r2.getD 1 0) && isHex (r2.getD 2 0) && isHex (r2.getD 3 0) then
        skipRest (r2.drop 4) else false) := by
  conv => lhs; unfold skipRest
  simp [isSimpleEsc]

/-- what `esc` can return for a \u escape whose first four digits are valid -/
theorem esc_u_cases (a b c d : UInt8) (rest : List UInt8) (ha : isHex a = true) (hb : isHex b = true)
    (hc : isHex c = true) (hd : isHex d = true) (hlen : 1 ≤ rest.length) :
    (∃ x, esc (117 :: a :: b :: c :: d :: rest) = some (x, 5)) ∨
    (∃ x a2 b2 c2 d2 r3, esc (117 :: a :: b :: c :: d :: rest) = some (x, 11) ∧
        rest = 92 :: 117 :: a2 :: b2 :: c2 :: d2 :: r3 ∧ isHex a2 = true ∧ isHex b2 = true ∧
        isHex c2 = true ∧ isHex d2 = true) ∨
    (esc (117 :: a :: b :: c :: d :: rest) = none ∧ skipRest rest = false) := by
  unfold esc
  have hl : ¬ ((a :: b :: c :: d :: rest).length < 5) := by simp only [List.length_cons]; omega
  simp only [show ((117 : UInt8) == 34) = false by decide, show ((117 : UInt8) == 92) = false by decide,
    show ((117 : UInt8) == 47) = false by decide, show ((117 : UInt8) == 98) = false by decide,
    show ((117 : UInt8) == 102) = false by decide, show ((117 : UInt8) == 110) = false by decide,
    show ((117 : UInt8) == 114) = false by decide, show ((117 : UInt8) == 116) = false by decide,
    show ((117 : UInt8) == 117) = true by decide, hl, if_true, if_false, Bool.false_eq_true]
  simp only [List.getD_cons_zero, List.getD_cons_succ, ha, hb, hc, hd, Bool.and_self, if_true]
  split
  · split
    · left; exact ⟨_, rfl⟩
    · rename_i hpair
      simp only [Bool.or_eq_true, decide_eq_true_eq, bne_iff_ne, not_or, Decidable.not_not, Nat.not_lt] at hpair
      obtain ⟨⟨hl11, h92⟩, h117⟩ := hpair
      simp only [List.length_cons] at hl11
      match rest, hlen, hl11, h92, h117 with
      | e1 :: e2 :: a2 :: b2 :: c2 :: d2 :: r3, _, _, h92, h117 =>
        simp only [List.getD_cons_zero] at h92 h117
        subst h92; subst h117
        simp only [List.getD_cons_zero, List.getD_cons_succ]
        split
        · rename_i hh
          simp only [Bool.and_eq_true] at hh
          split
          · right; left
            exact ⟨_, a2, b2, c2, d2, r3, rfl, rfl, hh.1.1.1, hh.1.1.2, hh.1.2, hh.2⟩
          · left; exact ⟨_, rfl⟩
        · rename_i hh
          right; right
          refine ⟨rfl, ?_⟩
          rw [skipRest_u]
          simp only [List.getD_cons_zero, List.getD_cons_succ]
          simp [hh]
      | [], h, _, _, _ => simp at h
      | [_], _, h, _, _ => simp at h
      | [_, _], _, h, _, _ => simp at h
      | [_, _, _], _, h, _, _ => simp at h
      | [_, _, _, _], _, h, _, _ => simp at h
      | [_, _, _, _, _], _, h, _, _ => simp at h
  · left; exact ⟨_, rfl⟩

theorem esc_simple (e : UInt8) (r : List UInt8) (h : isSimpleEsc e = true) :
    ∃ x, esc (e :: r) = some ([x], 1) := by
  unfold esc
  simp only [isSimpleEsc, Bool.or_eq_true] at h
  by_cases h1 : (e == 34) = true
  · simp [h1]
  by_cases h2 : (e == 92) = true
  · simp [h1, h2]
  by_cases h3 : (e == 47) = true
  · simp [h1, h2, h3]
  by_cases h4 : (e == 98) = true
  · simp [h1, h2, h3, h4]
  by_cases h5 : (e == 102) = true
  · simp [h1, h2, h3, h4, h5]
  by_cases h6 : (e == 110) = true
  · simp [h1, h2, h3, h4, h5, h6]
  by_cases h7 : (e == 114) = true
  · simp [h1, h2, h3, h4, h5, h6, h7]
  by_cases h8 : (e == 116) = true
  · simp [h1, h2, h3, h4, h5, h6, h7, h8]
  simp [h1, h2, h3, h4, h5, h6, h7, h8] at h

theorem esc_other (e : UInt8) (r : List UInt8) (h : isSimpleEsc e = false) (hu : (e == 117) = false) :
    esc (e :: r) = none := by
  unfold esc
  simp only [isSimpleEsc, Bool.or_eq_false_iff] at h
  simp [h, hu]

/-- the text ends with the NUL terminator -/
def Term (l : List UInt8) : Prop := l.getLast? = some 0

theorem Term_tail (c : UInt8) (r : List UInt8) (h : Term (c :: r)) (hc : (c == 0) = false) :
    Term r ∧ 1 ≤ r.length := by
  unfold Term at *
  cases r with
  | nil => simp at h; subst h; simp at hc
  | cons x xs => simp [List.getLast?_cons_cons] at h ⊢; exact h

end GoJson.Model.Key
