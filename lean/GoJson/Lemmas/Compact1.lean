import GoJson.Lemmas.CompactSpec
import GoJson.Lemmas.BufCompl2
namespace GoJson.Model.Compact
open GoJson GoJson.Spec

theorem wsTbl_fin : ∀ i : Fin 256, (Gen.enc_isWhiteSpace.getD i.val 0 == 1) =
    (i.val == 32 || i.val == 9 || i.val == 10 || i.val == 13) := by decide +kernel
theorem floatTbl_fin : ∀ i : Fin 256, (Gen.enc_floatTable.getD i.val 0 == 1) =
    ((decide (48 ≤ i.val) && decide (i.val ≤ 57)) || i.val == 46 || i.val == 101 || i.val == 69 || i.val == 43 || i.val == 45) := by
  decide +kernel
theorem maxDepth_val : maxDepth = 10000 := by decide

theorem wsTbl_eq : wsTbl = BufDec.wsTbl := by
  funext b
  have h1 := wsTbl_fin ⟨b.toNat, b.toNat_lt⟩
  have h2 := BufDec.wsTbl_fin ⟨b.toNat, b.toNat_lt⟩
  simp only [wsTbl, BufDec.wsTbl] at *
  rw [h1, h2]

theorem floatTbl_eq : floatTbl = BufDec.floatTbl := by
  funext b
  have h1 := floatTbl_fin ⟨b.toNat, b.toNat_lt⟩
  have h2 := BufDec.floatTbl_fin ⟨b.toNat, b.toNat_lt⟩
  simp only [floatTbl, BufDec.floatTbl] at *
  rw [h1, h2]

theorem skipWs_eq : skipWs = BufDec.skipWs := by
  funext s
  induction s with
  | nil => rfl
  | cons b s ih => simp only [skipWs, BufDec.skipWs, wsTbl_eq, ih]

theorem munch_eq : munch = BufDec.munch := by
  funext s
  induction s with
  | nil => rfl
  | cons b s ih => simp only [munch, BufDec.munch, floatTbl_eq, ih]

theorem isHex_eq (c : UInt8) : isHex c = isHexDigit c := rfl
theorem isSimpleEsc_eq (c : UInt8) : isSimpleEsc c = isSimpleLetter c := rfl

/-- without HTML escaping the string body loop accepts exactly RFC-8259 string bodies and copies
them verbatim -/
theorem cbody_sound (l o rest : List UInt8) (h : cbody false l = some (o, rest)) :
    ∃ items, (∀ i ∈ items, i.wf true = true) ∧ l = renderAll items ++ 34 :: rest ∧ o = renderAll items ++ [34] := by
  fun_induction cbody false l generalizing o rest
  case case1 => simp at h
  case case2 c r hc =>
    simp only [Option.some.injEq, Prod.mk.injEq] at h
    obtain ⟨rfl, rfl⟩ := h
    have : c = 34 := by simpa using hc
    subst this
    exact ⟨[], by simp, rfl, rfl⟩
  case case3 => simp at h
  case case4 c1 hq hb e r2 he o' rest' hx ih =>
    simp only [Option.some.injEq, Prod.mk.injEq] at h
    obtain ⟨rfl, rfl⟩ := h
    obtain ⟨items, hw, hl, ho⟩ := ih _ _ hx
    have : c1 = 92 := by simpa using hb
    subst this
    refine ⟨.simple e :: items, ?_, by rw [renderAll_cons, hl]; rfl, by rw [renderAll_cons, ho]; rfl⟩
    intro i hi
    simp at hi
    rcases hi with rfl | hi
    · simp [Item.wf, ← isSimpleEsc_eq, he]
    · exact hw i hi
  case case5 => simp at h
  case case6 => simp at h
  case case7 c1 hq hb e r2 hns hu hlen hhex o' rest' hx ih =>
    simp only [Option.some.injEq, Prod.mk.injEq] at h
    obtain ⟨rfl, rfl⟩ := h
    obtain ⟨items, hw, hl, ho⟩ := ih _ _ hx
    have : c1 = 92 := by simpa using hb
    subst this
    have : e = 117 := by simpa using hu
    subst this
    obtain ⟨h1, t1, rfl⟩ := BufDec.exists_cons'' r2 (by omega)
    obtain ⟨h2, t2, rfl⟩ := BufDec.exists_cons'' t1 (by simp at hlen; omega)
    obtain ⟨h3, t3, rfl⟩ := BufDec.exists_cons'' t2 (by simp at hlen; omega)
    obtain ⟨h4, t4, rfl⟩ := BufDec.exists_cons'' t3 (by simp at hlen; omega)
    simp only [List.getD_cons_zero, List.getD_cons_succ, Bool.and_eq_true] at hhex
    simp only [List.drop_succ_cons, List.drop_zero] at hl hx
    refine ⟨.uni h1 h2 h3 h4 :: items, ?_, by rw [renderAll_cons, hl]; rfl, by rw [renderAll_cons, ho]; rfl⟩
    intro i hi
    simp at hi
    rcases hi with rfl | hi
    · simp only [Item.wf, ← isHex_eq, hhex.1.1.1, hhex.1.1.2, hhex.1.2, hhex.2, Bool.and_self]
    · exact hw i hi
  case case8 => simp at h
  case case9 => simp at h
  case case10 => simp at h
  case case11 => simp at h
  case case12 => simp_all
  case case13 => simp_all
  case case14 => simp_all
  case case15 => simp_all
  case case16 c r hq hb hctl hh he o' rest' hx ih =>
    simp only [Option.some.injEq, Prod.mk.injEq] at h
    obtain ⟨rfl, rfl⟩ := h
    obtain ⟨items, hw, hl, ho⟩ := ih _ _ hx
    refine ⟨.raw c :: items, ?_, by rw [renderAll_cons, hl]; rfl, by rw [renderAll_cons, ho]; rfl⟩
    intro i hi
    simp at hi
    rcases hi with rfl | hi
    · simp only [Item.wf, Bool.not_true, Bool.false_or, Bool.and_eq_true, bne_iff_ne, ne_eq, decide_eq_true_eq]
      refine ⟨⟨⟨by simpa using hq, by simpa using hb⟩, ?_⟩, by omega⟩
      intro h0; subst h0; simp at hctl
    · exact hw i hi
  case case17 => simp at h
end GoJson.Model.Compact
