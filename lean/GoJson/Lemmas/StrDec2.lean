import GoJson.Lemmas.StrDec
namespace GoJson.Model.StrDec
open GoJson GoJson.Spec

theorem sem_all_raw (items : List Item) (h : hasEsc items = false) : sem items = renderAll items := by
  induction items with
  | nil => rw [sem_nil]; rfl
  | cons it r ih =>
    cases it with
    | raw b => rw [sem_cons_raw, renderAll_cons, ih (by simpa [hasEsc] using h)]; rfl
    | simple e => simp [hasEsc] at h
    | uni _ _ _ _ => simp [hasEsc] at h

theorem decodeString_ws (ws s : List UInt8) (k : Nat) (hws : ∀ b ∈ ws, isWs b = true) :
    decodeString (ws ++ s) k = decodeString s (k + ws.length) := by
  induction ws generalizing k with
  | nil => simp
  | cons b ws ih =>
    rw [List.cons_append]
    conv => lhs; unfold decodeString
    simp only [hws b (by simp), ↓reduceIte]
    rw [ih (k + 1) (fun x hx => hws x (by simp [hx]))]
    congr 1
    simp only [List.length_cons]; omega

theorem decodeString_literal (items : List Item) (rest : List UInt8) (k : Nat) (hw : ∀ i ∈ items, WF i) :
    decodeString (34 :: (renderAll items ++ 34 :: rest)) k =
      .ok (sem items) (k + (renderAll items).length + 2) := by
  unfold decodeString
  have h1 : isWs 34 = false := by decide
  simp only [h1, Bool.false_eq_true, ↓reduceIte]
  have h2 : ((34 : UInt8) == 91 || (34 : UInt8) == 123) = false := by decide
  have h3 : ((34 : UInt8) == 45 || (decide (48 ≤ (34 : UInt8).toNat) && decide ((34 : UInt8).toNat ≤ 57))) = false := by decide
  simp only [h2, h3, Bool.false_eq_true, ↓reduceIte, beq_self_eq_true]
  rw [scanBody_render items rest hw]
  simp only
  by_cases he : hasEsc items = true
  · simp only [he, ↓reduceIte, unescape_render items hw]
    congr 1; omega
  · have he' : hasEsc items = false := by simpa using he
    simp only [he', Bool.false_eq_true, ↓reduceIte, sem_all_raw items he']
    congr 1; omega
end GoJson.Model.StrDec
