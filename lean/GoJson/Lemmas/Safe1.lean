import GoJson.Model.Dec
import GoJson.Lemmas.Dec6
namespace GoJson.Model.BufDec
open GoJson GoJson.Model.StrDec

/-- the buffer ends with the NUL terminator -/
def Term (l : List UInt8) : Prop := l.getLast? = some 0

theorem Term_ne_nil (l : List UInt8) (h : Term l) : l ≠ [] := by
  intro hl; subst hl; simp [Term] at h

theorem Term_drop (l : List UInt8) (n : Nat) (h : Term l) (hn : n < l.length) : Term (l.drop n) := by
  unfold Term at *
  rw [List.getLast?_drop]
  simp [h]; omega

theorem Term_tail (c : UInt8) (r : List UInt8) (h : Term (c :: r)) (hc : c ≠ 0) : Term r := by
  have hr : r ≠ [] := by
    intro hr; subst hr; simp [Term] at h; exact hc h
  have hlen : 0 < r.length := by
    cases r with
    | nil => exact absurd rfl hr
    | cons _ _ => simp
  have := Term_drop (c :: r) 1 h (by simp only [List.length_cons]; omega)
  simpa using this

/-- the string scanner stops before the terminator: it never reads past the buffer and leaves a
terminated rest -/
theorem scanBody_term (n : Nat) : ∀ l : List UInt8, l.length ≤ n → Term l →
    scanBody l ≠ .error .oob ∧ (∀ body k esc, scanBody l = .ok (body, k, esc) → k < l.length) := by
  induction n with
  | zero =>
    intro l hl ht
    have := Term_ne_nil l ht
    have : l = [] := List.eq_nil_of_length_eq_zero (by omega)
    contradiction
  | succ n ih =>
    intro l hl ht
    cases l with
    | nil => exact absurd rfl (Term_ne_nil _ ht)
    | cons c rest =>
      simp only [List.length_cons] at hl
      unfold scanBody
      by_cases h92 : (c == 92) = true
      · simp only [h92, if_true]
        have hc0 : c ≠ 0 := by intro h; subst h; simp at h92
        have htr := Term_tail c rest ht hc0
        cases rest with
        | nil => exact absurd rfl (Term_ne_nil _ htr)
        | cons e rest2 =>
          simp only
          by_cases hs : isSimpleEsc e = true
          · simp only [hs, if_true]
            have he0 : e ≠ 0 := by intro h; subst h; simp [isSimpleEsc] at hs
            have htr2 := Term_tail e rest2 htr he0
            simp only [List.length_cons] at hl
            obtain ⟨h1, h2⟩ := ih rest2 (by omega) htr2
            cases hsb : scanBody rest2 with
            | error r =>
              refine ⟨?_, ?_⟩
              · simp only; intro hh; cases hh; exact h1 hsb
              · intro body k esc hh; cases hh
            | ok x =>
              obtain ⟨body, k, esc⟩ := x
              refine ⟨by simp, ?_⟩
              intro body' k' esc' hh
              simp only [Except.ok.injEq, Prod.mk.injEq] at hh
              have := h2 body k esc hsb
              simp only [List.length_cons]
              omega
          · simp only [hs, if_false, Bool.false_eq_true]
            by_cases hu : (e == 117) = true
            · simp only [hu, if_true]
              by_cases hlen : rest2.length < 5
              · simp [hlen]
              · simp only [hlen, if_false]
                by_cases hh4 : (isHex (rest2.getD 0 0) && isHex (rest2.getD 1 0) && isHex (rest2.getD 2 0) && isHex (rest2.getD 3 0)) = true
                · simp only [hh4, if_true]
                  have he0 : e ≠ 0 := by intro h; subst h; simp at hu
                  have htr2 := Term_tail e rest2 htr he0
                  have htd := Term_drop rest2 4 htr2 (by omega)
                  simp only [List.length_cons] at hl
                  obtain ⟨h1, h2⟩ := ih (rest2.drop 4) (by simp only [List.length_drop]; omega) htd
                  cases hsb : scanBody (rest2.drop 4) with
                  | error r =>
                    refine ⟨?_, ?_⟩
                    · simp only; intro hh; cases hh; exact h1 hsb
                    · intro body k esc hh; cases hh
                  | ok x =>
                    obtain ⟨body, k, esc⟩ := x
                    refine ⟨by simp, ?_⟩
                    intro body' k' esc' hh
                    simp only [Except.ok.injEq, Prod.mk.injEq] at hh
                    have := h2 body k esc hsb
                    simp only [List.length_drop] at this
                    simp only [List.length_cons]
                    omega
                · have hh4' : (isHex (rest2.getD 0 0) && isHex (rest2.getD 1 0) && isHex (rest2.getD 2 0) && isHex (rest2.getD 3 0)) = false := by
                    simpa using hh4
                  simp only [hh4', Bool.false_eq_true, if_false]
                  exact ⟨by simp, fun _ _ _ hh => by cases hh⟩
            · simp [hu]
      · simp only [h92, if_false, Bool.false_eq_true]
        by_cases h34 : (c == 34) = true
        · simp only [h34, if_true]
          refine ⟨by simp, ?_⟩
          intro body k esc hh
          simp only [Except.ok.injEq, Prod.mk.injEq] at hh
          have hc0 : c ≠ 0 := by intro h; subst h; simp at h34
          have hne := Term_ne_nil _ (Term_tail c rest ht hc0)
          have hpos : 0 < rest.length := by
            cases rest with
            | nil => exact absurd rfl hne
            | cons _ _ => simp
          simp only [List.length_cons]; omega
        · simp only [h34, if_false, Bool.false_eq_true]
          by_cases h0 : c.toNat < 32
          · simp [h0]
          · simp only [h0, if_false]
            have hc0 : c ≠ 0 := by intro h; subst h; simp at h0
            have htr := Term_tail c rest ht hc0
            obtain ⟨h1, h2⟩ := ih rest (by omega) htr
            cases hsb : scanBody rest with
            | error r =>
              refine ⟨?_, ?_⟩
              · simp only; intro hh; cases hh; exact h1 hsb
              · intro body k esc hh; cases hh
            | ok x =>
              obtain ⟨body, k, esc⟩ := x
              refine ⟨by simp, ?_⟩
              intro body' k' esc' hh
              simp only [Except.ok.injEq, Prod.mk.injEq] at hh
              have := h2 body k esc hsb
              simp only [List.length_cons]
              omega

end GoJson.Model.BufDec
