import GoJson.Model.Dec
import GoJson.Lemmas.Enc4
import GoJson.Lemmas.BufCompl1
import GoJson.Lemmas.StrDec2
namespace GoJson.Model.Dec
open GoJson GoJson.Spec GoJson.Model.BufDec GoJson.Model.StrDec

/-- what may follow a value: a separator, a closing bracket or the terminator -/
def Stop (rest : List UInt8) : Prop := ∃ c r, rest = c :: r ∧ (c = 44 ∨ c = 93 ∨ c = 125 ∨ c = 0)

theorem stop_facts (c : UInt8) (h : c = 44 ∨ c = 93 ∨ c = 125 ∨ c = 0) :
    validEnd c = true ∧ floatTbl c = false := by
  have h1 := validEnd_fin ⟨c.toNat, c.toNat_lt⟩
  have h2 := floatTbl_fin ⟨c.toNat, c.toNat_lt⟩
  simp only [validEnd, floatTbl]
  rw [h1, h2]
  rcases h with rfl | rfl | rfl | rfl <;> decide

theorem skipWs_head (b : UInt8) (t : List UInt8) (hb : isWsByte b = false) : skipWs (b :: t) = b :: t :=
  skipWs_nonws b t hb

/-- a number token followed by a stop byte -/
theorem value_number (tok rest : List UInt8) (hn : isNumber tok = true) (hs : Stop rest) (f d : Nat) :
    value false (f + 1) d (tok ++ rest) = .ok (.num tok) rest := by
  obtain ⟨b, t, rfl, hb, ht⟩ := isNumber_alpha tok hn
  obtain ⟨c, r, rfl, hc⟩ := hs
  obtain ⟨hve, hfl⟩ := stop_facts c hc
  have hbws : isWsByte b = false := by
    rcases hb with rfl | hd
    · decide
    · simp only [isDig, Bool.and_eq_true, decide_eq_true_eq] at hd
      simp only [isWsByte, Bool.or_eq_false_iff, beq_eq_false_iff_ne, ne_eq]
      refine ⟨⟨⟨?_, ?_⟩, ?_⟩, ?_⟩ <;> (intro h; subst h; simp at hd)
  have hcond : (b == 45 || (decide (48 ≤ b.toNat) && decide (b.toNat ≤ 57))) = true := by
    rcases hb with rfl | hd
    · decide
    · simp only [isDig] at hd; simp [hd]
  have hb123 : (b == 123) = false := by
    rcases hb with rfl | hd
    · decide
    · simp only [isDig, Bool.and_eq_true, decide_eq_true_eq] at hd
      simp only [beq_eq_false_iff_ne, ne_eq]; intro h; subst h; simp at hd
  have hb91 : (b == 91) = false := by
    rcases hb with rfl | hd
    · decide
    · simp only [isDig, Bool.and_eq_true, decide_eq_true_eq] at hd
      simp only [beq_eq_false_iff_ne, ne_eq]; intro h; subst h; simp at hd
  have hm : munch (t ++ c :: r) = (t, c :: r) := munch_all t c r ht hfl
  simp only [List.cons_append]
  unfold value
  rw [skipWs_head b _ hbws]
  simp only [hb123, hb91, hcond, if_true, Bool.false_eq_true, if_false]
  unfold numberValue
  simp [hm, hve, hn]

theorem stringValue_render (items : List Item) (rest : List UInt8) (hw : ∀ i ∈ items, i.wf true = true) :
    stringValue (renderAll items ++ 34 :: rest) = .ok (sem items, rest) := by
  have hw' : ∀ i ∈ items, WF i := hw
  unfold stringValue
  rw [scanBody_render items rest hw']
  simp only
  have hdrop : (renderAll items ++ 34 :: rest).drop ((renderAll items).length + 1) = rest := by
    rw [show (renderAll items ++ 34 :: rest) = (renderAll items ++ [34]) ++ rest by simp]
    rw [List.drop_left' (by simp)]
  rw [hdrop]
  by_cases he : hasEsc items = true
  · simp [he, unescape_render items hw']
  · have he' : hasEsc items = false := by simpa using he
    simp [he', sem_all_raw items he']

/-- a string token -/
theorem value_string (items : List Item) (rest : List UInt8) (hw : ∀ i ∈ items, i.wf true = true) (f d : Nat) :
    value false (f + 1) d ((34 :: renderAll items ++ [34]) ++ rest) = .ok (.str (sem items)) rest := by
  have : (34 :: renderAll items ++ [34]) ++ rest = 34 :: (renderAll items ++ 34 :: rest) := by simp
  rw [this]
  unfold value
  rw [skipWs_head 34 _ (by decide)]
  simp only [show ((34 : UInt8) == 123) = false by decide, show ((34 : UInt8) == 91) = false by decide,
    show ((34 : UInt8) == 45 || (decide (48 ≤ (34 : UInt8).toNat) && decide ((34 : UInt8).toNat ≤ 57))) = false by decide,
    show ((34 : UInt8) == 34) = true by decide, if_true, Bool.false_eq_true, if_false]
  rw [stringValue_render items rest hw]

theorem value_null (rest : List UInt8) (f d : Nat) :
    value false (f + 1) d ([110, 117, 108, 108] ++ rest) = .ok .null rest := by
  simp only [List.cons_append, List.nil_append]
  unfold value
  rw [skipWs_head 110 _ (by decide)]
  simp [litValue]

theorem value_true (rest : List UInt8) (f d : Nat) :
    value false (f + 1) d ([116, 114, 117, 101] ++ rest) = .ok (.bool true) rest := by
  simp only [List.cons_append, List.nil_append]
  unfold value
  rw [skipWs_head 116 _ (by decide)]
  simp [litValue]

theorem value_false (rest : List UInt8) (f d : Nat) :
    value false (f + 1) d ([102, 97, 108, 115, 101] ++ rest) = .ok (.bool false) rest := by
  simp only [List.cons_append, List.nil_append]
  unfold value
  rw [skipWs_head 102 _ (by decide)]
  simp [litValue]

end GoJson.Model.Dec
