import GoJson.Model.Path
namespace GoJson.Model.Path

theorem shift_ne_panic (r : BR) (d : Nat) (s : List Sel) (h : r ≠ .panic) : r.shift d s ≠ .panic := by
  cases r <;> simp_all [BR.shift]

/-- no builder function indexes an empty slice, provided its caller passed a non-empty one (the
loops may run to the end of the slice) -/
theorem go_no_panic (m : Mode) (buf : List Nat) (h : buf ≠ [] ∨ m.rank = 0) : go m buf ≠ .panic := by
  fun_induction go m buf <;> first
    | (simp [Mode.rank] at h; done)
    | (intro hc; cases hc)
    | (apply shift_ne_panic; simp_all [Mode.rank])
    | (simp_all [Mode.rank]; done)
    | (simp_all [Mode.rank]; apply shift_ne_panic; assumption)

theorem build_no_panic (buf : List Nat) : build buf ≠ .panic := by
  unfold build
  split
  · simp
  · split
    · simp
    · split
      · simp
      · rename_i r hne hr
        have := go_no_panic .next r (Or.inl hr)
        split
        · split <;> simp
        · simp
        · rename_i hp; exact absurd hp this

def Mode.preLen : Mode → Nat
  | .selLoop pre => pre.length | .quoteLoop _ pre => pre.length | .recLoop pre => pre.length
  | .idxLoop pre => pre.length | _ => 0

theorem shift_ok (r : BR) (d : Nat) (s : List Sel) (o : Nat) (sels : List Sel)
    (h : r.shift d s = .ok o sels) : ∃ o' sels', r = .ok o' sels' ∧ o = o' + d ∧ sels = s ++ sels' := by
  cases r with
  | ok o' sels' =>
    simp only [BR.shift, BR.ok.injEq] at h
    exact ⟨o', sels', rfl, h.1.symm, h.2.symm⟩
  | err => simp [BR.shift] at h
  | panic => simp [BR.shift] at h

/-- a successful builder function has consumed its whole slice: the reported offset reaches its end
(it may overshoot: `buildNextCharIfExists` adds one too many) -/
theorem go_offset (m : Mode) (buf : List Nat) (o : Nat) (sels : List Sel) (h : go m buf = .ok o sels) :
    buf.length + m.preLen ≤ o := by
  fun_induction go m buf generalizing o sels <;> first
    | (cases h; done)
    | (simp only [BR.ok.injEq] at h; simp only [Mode.preLen, List.length_cons, List.length_nil]; omega)
    | (rename_i ih
       obtain ⟨o', sels', h1, h2, h3⟩ := shift_ok _ _ _ _ _ h
       have := ih o' sels' h1
       simp only [Mode.preLen, List.length_cons, Nat.add_zero] at this ⊢
       omega)

    | (rename_i ih
       have := ih o sels h
       simp only [Mode.preLen, List.length_cons] at this ⊢
       omega)
    | (simp_all [Mode.preLen]; done)
    | (simp_all [Mode.preLen]; omega)
    | (rename_i hp hne ih
       simp only [hne, if_false] at h
       split at h
       · cases h
       · obtain ⟨o', sels', h1, h2, h3⟩ := shift_ok _ _ _ _ _ h
         have := ih o' sels' h1
         simp only [Mode.preLen, List.length_cons, Nat.add_zero] at this ⊢
         omega)

/-- hence the "remain invalid path" branch of `build` is dead: a text is accepted exactly when the
recursive builder accepts what follows the `$` -/
theorem build_ok_iff (c : Nat) (r : List Nat) (hr : r ≠ []) (sels : List Sel) :
    build (c :: r) = .ok sels ↔ c = cDollar ∧ ∃ o, go .next r = .ok o sels := by
  unfold build
  by_cases hc : c = cDollar
  · simp only [hc, ne_eq, not_true_eq_false, if_false, hr, true_and]
    cases hg : go .next r with
    | ok o s =>
      have := go_offset .next r o s hg
      simp only [Mode.preLen] at this
      have hlt : ¬ (r.length > o) := by omega
      simp [hlt]
    | err => simp
    | panic => simp
  · simp [hc]

end GoJson.Model.Path
