import GoJson.Spec.JsonString
namespace GoJson.Spec

def Item.notHigh : Item → Bool
  | .uni h1 h2 h3 h4 => !isHighSur (code h1 h2 h3 h4)
  | _ => true

theorem sem_cons_raw (b : UInt8) (r : List Item) : sem (.raw b :: r) = b :: sem r := by
  rw [sem]
theorem sem_cons_simple (e : UInt8) (r : List Item) : sem (.simple e :: r) = simpleValue e :: sem r := by
  rw [sem]
theorem sem_cons_uni_notHigh (h1 h2 h3 h4 : UInt8) (r : List Item) (h : isHighSur (code h1 h2 h3 h4) = false) :
    sem (.uni h1 h2 h3 h4 :: r) = utf8Encode (code h1 h2 h3 h4) ++ sem r := by
  rw [sem]; simp [h]
theorem sem_nil : sem [] = [] := by rw [sem]

theorem sem_append (xs ys : List Item) (h : ∀ i ∈ xs, i.notHigh = true) : sem (xs ++ ys) = sem xs ++ sem ys := by
  induction xs with
  | nil => simp [sem_nil]
  | cons x xs ih =>
    have ih' := ih (fun i hi => h i (by simp [hi]))
    have hx := h x (by simp)
    cases x with
    | raw b => simp [sem_cons_raw, ih']
    | simple e => simp [sem_cons_simple, ih']
    | uni h1 h2 h3 h4 =>
      simp [Item.notHigh] at hx
      simp [sem_cons_uni_notHigh _ _ _ _ _ hx, ih']

theorem renderAll_append (xs ys : List Item) : renderAll (xs ++ ys) = renderAll xs ++ renderAll ys := by
  simp [renderAll]

theorem renderAll_cons (x : Item) (xs : List Item) : renderAll (x :: xs) = x.render ++ renderAll xs := by
  simp [renderAll]

theorem coerce_cons_ascii (b : UInt8) (t : List UInt8) (h : b.toNat < 0x80) :
    coerceUtf8 (b :: t) = b :: coerceUtf8 t := by
  rw [coerceUtf8]
  have : utf8SeqLen (b :: t) = 1 := by simp [utf8SeqLen, h]
  simp [this]

theorem coerce_nil : coerceUtf8 [] = [] := by rw [coerceUtf8]

end GoJson.Spec

namespace GoJson.Spec

theorem u8eq_iff' (a b : UInt8) : a = b ↔ a.toNat = b.toNat := UInt8.toNat_inj.symm

set_option maxHeartbeats 1600000 in
theorem seq_tail_high (c : UInt8) (t : List UInt8) (b : UInt8)
    (hb : b ∈ t.take (utf8SeqLen (c :: t) - 1)) : 0x80 ≤ b.toNat := by
  unfold utf8SeqLen at hb
  rcases t with _ | ⟨s1, _ | ⟨s2, _ | ⟨s3, t4⟩⟩⟩ <;> simp only [isCont, Bool.and_eq_true, decide_eq_true_eq] at hb <;>
    (repeat' split at hb) <;> simp at hb <;> (try omega) <;>
    (try (rcases hb with rfl | rfl | rfl <;> omega)) <;> (try (rcases hb with rfl | rfl <;> omega)) <;> (try (subst hb; omega))

end GoJson.Spec
