import GoJson.Lemmas.Dec2
namespace GoJson.Model.Dec
open GoJson GoJson.Spec GoJson.Model.BufDec GoJson.Model.StrDec GoJson.Model.Enc GoJson.Model.Compact

theorem value_arr_empty (rest : List UInt8) (f d : Nat) (hd : d + 1 ≤ BufDec.maxDepth) :
    value false (f + 1) d (91 :: 93 :: rest) = .ok (.arr .nil) rest := by
  unfold value
  rw [skipWs_head 91 _ (by decide)]
  have : ¬ (d + 1 > BufDec.maxDepth) := by omega
  simp only [show ((91 : UInt8) == 123) = false by decide, show ((91 : UInt8) == 91) = true by decide,
    if_true, Bool.false_eq_true, if_false, this]
  rw [skipWs_head 93 _ (by decide)]
  simp

theorem value_obj_empty (rest : List UInt8) (f d : Nat) (hd : d + 1 ≤ BufDec.maxDepth) :
    value false (f + 1) d (123 :: 125 :: rest) = .ok (.obj .nil) rest := by
  unfold value
  rw [skipWs_head 123 _ (by decide)]
  have : ¬ (d + 1 > BufDec.maxDepth) := by omega
  simp only [show ((123 : UInt8) == 123) = true by decide, if_true, this, if_false]
  rw [skipWs_head 125 _ (by decide)]
  simp

theorem value_arr_cons (c : UInt8) (r2 : List UInt8) (f d : Nat) (hd : d + 1 ≤ BufDec.maxDepth)
    (hws : isWsByte c = false) (hc : c ≠ 93) (es : JTs) (rest : List UInt8)
    (h : elements false f (d + 1) (c :: r2) = .ok es rest) :
    value false (f + 1) d (91 :: c :: r2) = .ok (.arr es) rest := by
  unfold value
  rw [skipWs_head 91 _ (by decide)]
  have : ¬ (d + 1 > BufDec.maxDepth) := by omega
  simp only [show ((91 : UInt8) == 123) = false by decide, show ((91 : UInt8) == 91) = true by decide,
    if_true, Bool.false_eq_true, if_false, this]
  rw [skipWs_head c _ hws]
  have hc' : (c == 93) = false := by simpa using hc
  simp only [hc', Bool.false_eq_true, if_false, h]

theorem value_obj_cons (c : UInt8) (r2 : List UInt8) (f d : Nat) (hd : d + 1 ≤ BufDec.maxDepth)
    (hws : isWsByte c = false) (hc : c ≠ 125) (ms : JMs) (rest : List UInt8)
    (h : members false f (d + 1) (c :: r2) = .ok ms rest) :
    value false (f + 1) d (123 :: c :: r2) = .ok (.obj ms) rest := by
  unfold value
  rw [skipWs_head 123 _ (by decide)]
  have : ¬ (d + 1 > BufDec.maxDepth) := by omega
  simp only [show ((123 : UInt8) == 123) = true by decide, if_true, this, if_false]
  rw [skipWs_head c _ hws]
  have hc' : (c == 125) = false := by simpa using hc
  simp only [hc', Bool.false_eq_true, if_false, h]

/-- one element followed by the closing bracket -/
theorem elements_last (o rest : List UInt8) (t : JT) (f d : Nat)
    (h : value false f d (o ++ 93 :: rest) = .ok t (93 :: rest)) :
    elements false (f + 1) d (o ++ 93 :: rest) = .ok (.cons t .nil) rest := by
  unfold elements
  rw [h]
  simp only
  rw [skipWs_head 93 _ (by decide)]
  simp

/-- one element followed by a comma and more elements -/
theorem elements_more (o more rest : List UInt8) (t : JT) (ts : JTs) (f d : Nat)
    (h : value false f d (o ++ 44 :: more) = .ok t (44 :: more))
    (h2 : elements false f d more = .ok ts rest) :
    elements false (f + 1) d (o ++ 44 :: more) = .ok (.cons t ts) rest := by
  unfold elements
  rw [h]
  simp only
  rw [skipWs_head 44 _ (by decide)]
  simp [h2]

theorem members_last (key : List Item) (o rest : List UInt8) (t : JT) (f d : Nat)
    (hw : ∀ i ∈ key, i.wf true = true)
    (h : value false f d (o ++ 125 :: rest) = .ok t (125 :: rest)) :
    members false (f + 1) d ((34 :: renderAll key ++ [34]) ++ 58 :: (o ++ 125 :: rest)) =
      .ok (.cons (sem key) t .nil) rest := by
  have e : (34 :: renderAll key ++ [34]) ++ 58 :: (o ++ 125 :: rest) =
      34 :: (renderAll key ++ 34 :: (58 :: (o ++ 125 :: rest))) := by simp
  rw [e]
  unfold members
  rw [skipWs_head 34 _ (by decide)]
  simp only [show ((34 : UInt8) != 34) = false by decide, Bool.false_eq_true, if_false]
  rw [stringValue_render key _ hw]
  simp only
  rw [skipWs_head 58 _ (by decide)]
  simp only [show ((58 : UInt8) != 58) = false by decide, Bool.false_eq_true, if_false, h]
  rw [skipWs_head 125 _ (by decide)]
  simp

theorem members_more (key : List Item) (o more rest : List UInt8) (t : JT) (ts : JMs) (f d : Nat)
    (hw : ∀ i ∈ key, i.wf true = true)
    (h : value false f d (o ++ 44 :: more) = .ok t (44 :: more))
    (h2 : members false f d more = .ok ts rest) :
    members false (f + 1) d ((34 :: renderAll key ++ [34]) ++ 58 :: (o ++ 44 :: more)) =
      .ok (.cons (sem key) t ts) rest := by
  have e : (34 :: renderAll key ++ [34]) ++ 58 :: (o ++ 44 :: more) =
      34 :: (renderAll key ++ 34 :: (58 :: (o ++ 44 :: more))) := by simp
  rw [e]
  unfold members
  rw [skipWs_head 34 _ (by decide)]
  simp only [show ((34 : UInt8) != 34) = false by decide, Bool.false_eq_true, if_false]
  rw [stringValue_render key _ hw]
  simp only
  rw [skipWs_head 58 _ (by decide)]
  simp only [show ((58 : UInt8) != 58) = false by decide, Bool.false_eq_true, if_false, h]
  rw [skipWs_head 44 _ (by decide)]
  simp [h2]

end GoJson.Model.Dec
