import GoJson.Model.Key
namespace GoJson.Model.Key

/-! ### bit sets -/

def hasAt (ks : List (List UInt8)) (m j : Nat) (c : UInt8) : Bool :=
  match ks[m]? with
  | some k => k[j]? == some c
  | none => false

theorem testBit_rowFrom (ks : List (List UInt8)) (i j : Nat) (c : UInt8) (m : Nat) :
    (rowFrom ks i j c).testBit m = (decide (i ≤ m) && hasAt ks (m - i) j c) := by
  induction ks generalizing i with
  | nil => simp [rowFrom, hasAt]
  | cons k ks ih =>
    unfold rowFrom
    rw [Nat.testBit_or, ih (i + 1)]
    by_cases hm : m = i
    · subst hm
      have h1 : ¬ (m + 1 ≤ m) := by omega
      by_cases hk : k[j]? = some c
      · simp [hasAt, hk, Nat.one_shiftLeft, Nat.testBit_two_pow]
      · simp [hasAt, hk, h1]
    · by_cases hlt : i ≤ m
      · have h2 : i + 1 ≤ m := by omega
        have h3 : m - i = (m - (i + 1)) + 1 := by omega
        have h4 : (if k[j]? = some c then 1 <<< i else 0).testBit m = false := by
          split
          · rw [Nat.one_shiftLeft, Nat.testBit_two_pow]; simp; omega
          · simp
        rw [h4, h3]
        simp [hasAt, hlt, h2]
      · have h2 : ¬ (i + 1 ≤ m) := by omega
        have h4 : (if k[j]? = some c then 1 <<< i else 0).testBit m = false := by
          split
          · rw [Nat.one_shiftLeft, Nat.testBit_two_pow]; simp; omega
          · simp
        rw [h4]; simp [hlt, h2]

theorem testBit_row (ks : List (List UInt8)) (j : Nat) (c : UInt8) (m : Nat) :
    (row ks j c).testBit m = hasAt ks m j c := by
  unfold row; rw [testBit_rowFrom]; simp

theorem tzFrom_spec (w i n : Nat) (h : ∃ m, i ≤ m ∧ m < i + w ∧ n.testBit m = true) :
    n.testBit (tzFrom w i n) = true ∧ i ≤ tzFrom w i n ∧ tzFrom w i n < i + w ∧
      ∀ m, i ≤ m → m < tzFrom w i n → n.testBit m = false := by
  induction w generalizing i with
  | zero => obtain ⟨m, h1, h2, _⟩ := h; omega
  | succ w ih =>
    by_cases hb : n.testBit i = true
    · have e : tzFrom (w + 1) i n = i := by simp [tzFrom, hb]
      rw [e]
      exact ⟨hb, Nat.le_refl _, by omega, fun m h1 h2 => by omega⟩
    · have e : tzFrom (w + 1) i n = tzFrom w (i + 1) n := by simp [tzFrom, hb]
      rw [e]
      have : ∃ m, i + 1 ≤ m ∧ m < i + 1 + w ∧ n.testBit m = true := by
        obtain ⟨m, h1, h2, h3⟩ := h
        by_cases hm : m = i
        · subst hm; exact absurd h3 hb
        · exact ⟨m, by omega, by omega, h3⟩
      obtain ⟨a, b, c, d⟩ := ih (i + 1) this
      refine ⟨a, by omega, by omega, ?_⟩
      intro m h1 h2
      by_cases hm : m = i
      · subst hm; simpa using hb
      · exact d m (by omega) h2

theorem tz_spec (w n : Nat) (h : ∃ m, m < w ∧ n.testBit m = true) :
    n.testBit (tz w n) = true ∧ tz w n < w ∧ ∀ m, m < tz w n → n.testBit m = false := by
  obtain ⟨m, h1, h2⟩ := h
  obtain ⟨a, _, c, d⟩ := tzFrom_spec w 0 n ⟨m, Nat.zero_le _, by omega, h2⟩
  unfold tz
  exact ⟨a, by omega, fun m hm => d m (Nat.zero_le _) hm⟩

/-! ### the order -/

theorem lexLe_refl (a : List UInt8) : lexLe a a = true := by
  induction a with
  | nil => rfl
  | cons x xs ih => simp [lexLe, ih]

theorem lexLe_total (a b : List UInt8) : lexLe a b = true ∨ lexLe b a = true := by
  induction a generalizing b with
  | nil => left; rfl
  | cons x xs ih =>
    cases b with
    | nil => right; rfl
    | cons y ys =>
      simp only [lexLe, Bool.or_eq_true, decide_eq_true_eq, Bool.and_eq_true, beq_iff_eq]
      by_cases h1 : x.toNat < y.toNat
      · left; left; exact h1
      · by_cases h2 : y.toNat < x.toNat
        · right; left; exact h2
        · have : x = y := UInt8.toNat_inj.mp (by omega)
          subst this
          rcases ih ys with h | h
          · left; right; exact ⟨rfl, h⟩
          · right; right; exact ⟨rfl, h⟩

theorem lexLe_antisymm (a b : List UInt8) (h1 : lexLe a b = true) (h2 : lexLe b a = true) : a = b := by
  induction a generalizing b with
  | nil => cases b with
    | nil => rfl
    | cons y ys => simp [lexLe] at h2
  | cons x xs ih =>
    cases b with
    | nil => simp [lexLe] at h1
    | cons y ys =>
      simp only [lexLe, Bool.or_eq_true, decide_eq_true_eq, Bool.and_eq_true, beq_iff_eq] at h1 h2
      rcases h1 with h1 | ⟨rfl, h1⟩
      · rcases h2 with h2 | ⟨rfl, _⟩
        · omega
        · omega
      · rcases h2 with h2 | ⟨_, h2⟩
        · omega
        · rw [ih ys h1 h2]

theorem lexLe_trans (a b c : List UInt8) (h1 : lexLe a b = true) (h2 : lexLe b c = true) : lexLe a c = true := by
  induction a generalizing b c with
  | nil => rfl
  | cons x xs ih =>
    cases b with
    | nil => simp [lexLe] at h1
    | cons y ys =>
      cases c with
      | nil => simp [lexLe] at h2
      | cons z zs =>
        simp only [lexLe, Bool.or_eq_true, decide_eq_true_eq, Bool.and_eq_true, beq_iff_eq] at h1 h2 ⊢
        rcases h1 with h1 | ⟨rfl, h1⟩
        · rcases h2 with h2 | ⟨rfl, _⟩
          · left; omega
          · left; exact h1
        · rcases h2 with h2 | ⟨rfl, h2⟩
          · left; exact h2
          · right; exact ⟨rfl, ih ys zs h1 h2⟩

/-- a prefix sorts before (or with) every extension -/
theorem lexLe_of_take (q k : List UInt8) (h : k.take q.length = q) : lexLe q k = true := by
  induction q generalizing k with
  | nil => rfl
  | cons x xs ih =>
    cases k with
    | nil => simp at h
    | cons y ys =>
      simp only [List.length_cons, List.take_succ_cons, List.cons.injEq] at h
      obtain ⟨rfl, h⟩ := h
      simp [lexLe, ih ys h]

/-! ### sorting -/

def Sorted (l : List (List UInt8)) : Prop := l.Pairwise (fun a b => lexLe a b = true ∧ a ≠ b)

theorem mem_insertSorted (k x : List UInt8) (l : List (List UInt8)) :
    x ∈ insertSorted k l ↔ x = k ∨ x ∈ l := by
  induction l with
  | nil => simp [insertSorted]
  | cons y ys ih =>
    unfold insertSorted
    split
    · simp
    · simp only [List.mem_cons, ih]
      constructor
      · rintro (h | h | h) <;> simp [h]
      · rintro (h | h | h) <;> simp [h]

theorem sorted_insertSorted (k : List UInt8) (l : List (List UInt8)) (hs : Sorted l) (hk : k ∉ l) :
    Sorted (insertSorted k l) := by
  induction l with
  | nil => simp [insertSorted, Sorted]
  | cons y ys ih =>
    unfold Sorted at hs
    rw [List.pairwise_cons] at hs
    unfold insertSorted
    split
    · rename_i hle
      unfold Sorted
      rw [List.pairwise_cons]
      refine ⟨?_, List.pairwise_cons.mpr hs⟩
      intro z hz
      simp only [List.mem_cons] at hz
      rcases hz with rfl | hz
      · exact ⟨hle, fun h => hk (by simp [h])⟩
      · exact ⟨lexLe_trans _ _ _ hle (hs.1 z hz).1, fun h => hk (by simp [h, hz])⟩
    · rename_i hle
      have hyk : lexLe y k = true := by
        rcases lexLe_total k y with h | h
        · exact absurd h hle
        · exact h
      unfold Sorted
      rw [List.pairwise_cons]
      refine ⟨?_, ih hs.2 (fun h => hk (by simp [h]))⟩
      intro z hz
      rw [mem_insertSorted] at hz
      rcases hz with rfl | hz
      · exact ⟨hyk, fun h => hk (by simp [h])⟩
      · exact hs.1 z hz

theorem mem_sortNames (x : List UInt8) (l : List (List UInt8)) : x ∈ sortNames l ↔ x ∈ l := by
  induction l with
  | nil => simp [sortNames]
  | cons k ks ih => simp [sortNames, mem_insertSorted, ih]

theorem sorted_sortNames (l : List (List UInt8)) (h : l.Nodup) : Sorted (sortNames l) := by
  induction l with
  | nil => simp [sortNames, Sorted]
  | cons k ks ih =>
    rw [List.nodup_cons] at h
    exact sorted_insertSorted k _ (ih h.2) (fun hm => h.1 ((mem_sortNames k ks).mp hm))

theorem length_insertSorted (k : List UInt8) (l : List (List UInt8)) :
    (insertSorted k l).length = l.length + 1 := by
  induction l with
  | nil => rfl
  | cons y ys ih => unfold insertSorted; split <;> simp [ih]

theorem length_sortNames (l : List (List UInt8)) : (sortNames l).length = l.length := by
  induction l with
  | nil => rfl
  | cons k ks ih => simp [sortNames, length_insertSorted, ih]

theorem le_maxLen (l : List (List UInt8)) (k : List UInt8) (h : k ∈ l) : k.length ≤ maxLen l := by
  induction l with
  | nil => simp at h
  | cons x xs ih =>
    simp only [List.mem_cons] at h
    unfold maxLen
    rcases h with rfl | h
    · omega
    · have := ih h; omega

end GoJson.Model.Key
