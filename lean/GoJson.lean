import GoJson.Gen.Tables
import GoJson.Gen.Consts
import GoJson.Gen.Facts
import GoJson.Props.C16
import GoJson.Props.C17
import GoJson.Props.C05
import GoJson.Props.C18
import GoJson.Props.C14
