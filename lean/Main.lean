import GoJson.Drv.C16
import GoJson.Drv.C17
import GoJson.Drv.C05
import GoJson.Drv.C18
import GoJson.Drv.C14
import GoJson.Drv.C09
import GoJson.Drv.C15
import GoJson.Drv.C20
import GoJson.Drv.Enc
import GoJson.Drv.C19
import GoJson.Drv.Dec
import GoJson.Drv.Mem
import GoJson.Drv.C08

open GoJson.Drv

def handlers : List (List String → Option String) := [C16.handle, C17.handle, C05.handle, C18.handle, C14.handle, C09.handle, C15.handle, C20.handle, Enc.handle, C19.handle, Dec.handle, Mem.handle, C08.handle]

def step (line : String) : String :=
  let ws := (line.splitOn " ").filter (· ≠ "")
  match handlers.findSome? (fun h => h ws) with
  | some out => out
  | none => "bad-op"

partial def loop (h : IO.FS.Stream) (out : IO.FS.Stream) : IO Unit := do
  let line ← h.getLine
  if line.isEmpty then return ()
  let l := line.trimAsciiEnd.toString
  out.putStrLn (step l)
  loop h out

def main : IO Unit := do
  let stdin ← IO.getStdin
  let stdout ← IO.getStdout
  loop stdin stdout
