/-
Audit: list every theorem declared in the given modules with the axioms it depends on, as JSON.
usage: lake env lean --run Audit.lean GoJson.Props.C16 [more modules…]
-/
import Lean
open Lean

def jsonStr (s : String) : String := "\"" ++ (s.replace "\\" "\\\\").replace "\"" "\\\"" ++ "\""

def main (args : List String) : IO UInt32 := do
  initSearchPath (← findSysroot)
  let mods := args.map String.toName
  let env ← importModules (mods.toArray.map fun m => { module := m }) {}
  let mut first := true
  IO.println "["
  for m in mods do
    let some idx := env.getModuleIdx? m | do
      IO.eprintln s!"module {m} not found"; return 2
    let names := env.header.moduleData[idx.toNat]!.constNames
    for c in names do
      if c.isInternal then continue
      match env.find? c with
      | some (.thmInfo _) =>
        let ctx : Core.Context := { fileName := "<audit>", fileMap := default }
        let st : Core.State := { env }
        let (arr, _) ← (collectAxioms c : CoreM (Array Name)).toIO ctx st
        let axs := arr.toList.map (fun a => jsonStr a.toString)
        let sep := if first then "" else ","
        first := false
        IO.println s!"{sep}\{\"module\": {jsonStr m.toString}, \"theorem\": {jsonStr c.toString}, \"axioms\": [{", ".intercalate axs}]}"
      | _ => pure ()
  IO.println "]"
  return 0
